#!/bin/bash
# usage: eval_seeded.sh <ID> <k>      (seed k of property ID, from /tmp/wt-<ID>/_seed/<k>)
# 1. verifies the sub-agent's claims in its worktree, 2. copies the change to
# /verif/seeded/<ID>-<k>/, 3. runs the property's quick check on a scratch copy
# of /repo with the patch applied.  Prints one summary line.
ID=$1; K=$2
WT=/tmp/wt-$ID; SD=$WT/_seed/$K
DEST=/verif/seeded/$ID-$K
[ -f $SD/patch.diff ] || { echo "$ID-$K: no patch"; exit 0; }
cd $WT && git checkout -q -- . 2>/dev/null
PASS0=$(cd $WT && timeout 300 /venv/bin/python $SD/demo.py >/dev/null 2>&1; echo $?)
git apply $SD/patch.diff || { echo "$ID-$K: patch does not apply"; exit 0; }
TESTS=$(cd $WT && /venv/bin/python -m pytest -q -p no:cacheprovider 2>&1 | tail -1)
FAIL1=$(cd $WT && timeout 300 /venv/bin/python $SD/demo.py >/dev/null 2>&1; echo $?)
git checkout -q -- .
mkdir -p $DEST && cp $SD/patch.diff $SD/demo.py $SD/meta.json $DEST/
S=/tmp/verif-scratch-seed-$ID-$K
/verif/selftest/mk_scratch.sh $S >/dev/null
(cd $S && git apply $SD/patch.diff) || { echo "$ID-$K: patch does not apply to /repo HEAD"; rm -rf $S; exit 0; }
OUT=$(cd /verif && VERIF_REPO=$S VERIF_EVIDENCE=$S/ev.json timeout 1500 ./vcheck $ID 2>&1)
RC=$?
NV=$(echo "$OUT" | grep -c "^VIOLATION")
FIRST=$(echo "$OUT" | grep "^VIOLATION" | head -1)
SUMMARY=$(echo "$OUT" | grep "^$ID \[" | tail -1)
rm -rf $S
echo "$ID-$K demo_clean=$PASS0 tests='$TESTS' demo_patched=$FAIL1 check_rc=$RC violations=$NV $FIRST"
python3 - "$DEST" "$ID" "$K" "$PASS0" "$TESTS" "$FAIL1" "$RC" "$NV" "$SUMMARY" <<'PY'
import json,sys
dest,ID,K,p0,tests,f1,rc,nv,summary=sys.argv[1:]
m=json.load(open(dest+'/meta.json'))
m['verified_by_main']={'demo_exit_on_clean_tree':int(p0),'unit_tests_with_patch':tests,'demo_exit_with_patch':int(f1),
  'check':f'./vcheck {ID} --tier quick (VERIF_REPO = scratch copy of /repo HEAD + patch)','check_exit':int(rc),'violations_reported':int(nv),'check_summary':summary,
  'caught': int(rc)==1 and int(nv)>0}
json.dump(m,open(dest+'/meta.json','w'),indent=1)
PY
