#!/bin/bash
# usage: eval_seeded.sh <ID> <k> [srcdir]
# Evaluates seeded change /verif/seeded/<ID>-<k> (imported from srcdir if given):
# 1. verifies the sub-agent's claims in a scratch copy of /repo HEAD (demo passes
#    on the clean tree, unit tests pass and demo fails with the patch),
# 2. runs the property's quick check on a scratch copy with the patch applied.
ID=$1; K=$2; SRC=$3
DEST=/verif/seeded/$ID-$K
if [ -n "$SRC" ]; then mkdir -p $DEST && cp $SRC/patch.diff $SRC/demo.py $SRC/meta.json $DEST/; fi
[ -f $DEST/patch.diff ] || { echo "$ID-$K: no patch"; exit 0; }
S=/tmp/verif-scratch-seed-$ID-$K
/verif/selftest/mk_scratch.sh $S >/dev/null
PASS0=$(cd $S && timeout 300 /venv/bin/python $DEST/demo.py >/dev/null 2>&1; echo $?)
(cd $S && git apply $DEST/patch.diff) || { echo "$ID-$K: patch does not apply to /repo HEAD"; rm -rf $S; exit 0; }
TESTS=$(cd $S && /venv/bin/python -m pytest -q -p no:cacheprovider 2>&1 | tail -1)
FAIL1=$(cd $S && timeout 300 /venv/bin/python $DEST/demo.py >/dev/null 2>&1; echo $?)
CID=${CHECK_ID:-$ID}
OUT=$(cd /verif && VERIF_REPO=$S VERIF_EVIDENCE=$S/ev.json timeout 1500 ./vcheck $CID 2>&1)
RC=$?
NV=$(echo "$OUT" | grep -ac "^VIOLATION")
FIRST=$(echo "$OUT" | grep -a "^VIOLATION" | head -1)
SUMMARY=$(echo "$OUT" | grep -a "^$CID \[" | tail -1)
rm -rf $S
echo "$ID-$K demo_clean=$PASS0 tests='$TESTS' demo_patched=$FAIL1 check_rc=$RC violations=$NV $FIRST"
python3 - "$DEST" "$ID" "$K" "$PASS0" "$TESTS" "$FAIL1" "$RC" "$NV" "$SUMMARY" <<'PY'
import json,sys,os
dest,ID,K,p0,tests,f1,rc,nv,summary=sys.argv[1:]
m=json.load(open(dest+'/meta.json'))
m['verified_by_main']={'demo_exit_on_clean_tree':int(p0),'unit_tests_with_patch':tests,'demo_exit_with_patch':int(f1),
  'check':f'./vcheck {os.environ.get("CHECK_ID", ID)} --tier quick (VERIF_REPO = scratch copy of /repo HEAD + patch)','check_exit':int(rc),'violations_reported':int(nv),'check_summary':summary,
  'caught': int(rc)==1 and int(nv)>0}
json.dump(m,open(dest+'/meta.json','w'),indent=1)
PY
