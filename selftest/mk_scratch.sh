#!/bin/sh
# usage: mk_scratch.sh <dir>   - copy of /repo's working tree, git-initialised
set -e
rm -rf "$1"; mkdir -p "$1"
(cd /repo && git ls-files -z | xargs -0 cp --parents -t "$1")
cd "$1" && git init -q && git add -A && git -c user.email=v@v -c user.name=v commit -qm base
