#!/usr/bin/env python3
"""Writes /verif/seeded/README.md from the meta.json files."""
import glob
import json
import os

D = '/verif/seeded'
rows = []
for d in sorted(glob.glob(D + '/C*-*')):
    m = json.load(open(d + '/meta.json'))
    v = m.get('verified_by_main', {})
    rows.append((os.path.basename(d), m.get('property'),
                 ' '.join(str(m.get('summary', '')).split())[:230],
                 ' '.join(str(m.get('needs', '')).split())[:200],
                 v.get('unit_tests_with_patch', '?'),
                 v.get('demo_exit_on_clean_tree'), v.get('demo_exit_with_patch'),
                 'caught' if v.get('caught') else
                 ('MISSED (exit %s)' % v.get('check_exit')),
                 m.get('note_main', '')))
with open(D + '/README.md', 'w') as f:
    f.write('# Seeded changes\n\n'
            'Written by sub-agents that saw only the text of one property '
            'and a scratch worktree of /repo. Each directory holds '
            '`patch.diff`, `demo.py` (exits 0 on the unchanged tree, non-zero '
            'with the patch) and `meta.json` (incl. `verified_by_main`: what '
            'was re-run here - demo on a clean scratch copy, unit tests and '
            'demo with the patch, and the property\'s quick check with '
            '`VERIF_REPO` pointing at the patched scratch copy; see '
            '`selftest/eval_seeded.sh`). Nothing of this is ever applied to '
            '/repo.\n\n'
            '| change | breaks | summary | needs | tests | demo clean/patched '
            '| check | remark |\n|---|---|---|---|---|---|---|---|\n')
    for r in rows:
        f.write(f'| {r[0]} | {r[1]} | {r[2]} | {r[3]} | {r[4]} | {r[5]}/{r[6]} '
                f'| {r[7]} | {r[8]} |\n')
    n = len(rows)
    c = sum(1 for r in rows if r[7] == 'caught')
    f.write(f'\n{c} of {n} caught by the quick tier of the property they '
            f'break (after the strengthening recorded in the remark column; '
            f'"first evaluation: MISSED" marks the ones the checks did not '
            f'catch when the change first arrived).\n\nDropped: a round-2 '
            f'change for C02 (Producer.__mutate_node: `break` in the except '
            f'handler) whose demonstration relied on get_sort raising on a '
            f'malformed term - after the repair ad152e2 the demonstration no '
            f'longer fails, so the change was not kept; the behaviour it '
            f'breaks (a raising mutator must not cost other mutators their '
            f'candidates) is what C04 isolate_hierarchical checks.\n')
print(open(D + '/README.md').read()[-300:])
