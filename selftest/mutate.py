#!/usr/bin/env python3
"""Mutation analysis of the checks (self-test, not part of any registered
command).

  mutate.py list <file> [--max N] [--seed S]     enumerate mutation sites
  mutate.py run  <file> <props> [--max N] [--seed S] [--out results.jsonl]

Mutation operators (classic, source-text preserving): comparison operator
swaps (== / !=, < / <=, > / >=, is / is not, in / not in), and / or, dropping
``not``, small integer constants +-1, + / -.  A mutant is applied to a scratch
copy of /repo (never to /repo), the unit tests are run (mutants they kill are
discarded), then ``./vcheck <P>`` for every property in <props> with
VERIF_REPO pointing at the scratch copy.  Result per mutant: killed by tests /
caught by <P> / survived.
"""
import ast
import json
import os
import random
import subprocess
import sys

REPO = '/repo'
VERIF = '/verif'

SWAP = {ast.Eq: '!=', ast.NotEq: '==', ast.Lt: '<=', ast.LtE: '<',
        ast.Gt: '>=', ast.GtE: '>', ast.Is: 'is not', ast.IsNot: 'is',
        ast.In: 'not in', ast.NotIn: 'in'}
TOK = {ast.Eq: '==', ast.NotEq: '!=', ast.Lt: '<', ast.LtE: '<=',
       ast.Gt: '>', ast.GtE: '>=', ast.Is: 'is', ast.IsNot: 'is not',
       ast.In: 'in', ast.NotIn: 'not in'}


def _offset(lines, lineno, col):
    return sum(len(l) for l in lines[:lineno - 1]) + col


def sites(src):
    """[(start, end, replacement, description)] over the source text."""
    tree = ast.parse(src)
    lines = src.splitlines(keepends=True)
    # byte vs char: sources are ASCII apart from comments; use utf8 offsets
    out = []

    def span(a):
        return (_offset(lines, a.lineno, a.col_offset),
                _offset(lines, a.end_lineno, a.end_col_offset))

    funcs = {}
    for n in ast.walk(tree):
        if isinstance(n, (ast.FunctionDef, ast.ClassDef)):
            for c in ast.walk(n):
                if hasattr(c, 'lineno'):
                    funcs.setdefault(c.lineno, n.name)
    for n in ast.walk(tree):
        where = funcs.get(getattr(n, 'lineno', 0), '?')
        if isinstance(n, ast.Compare):
            prev = n.left
            for op, comp in zip(n.ops, n.comparators):
                a = span(prev)[1]
                b = span(comp)[0]
                gap = src[a:b]
                tok = TOK.get(type(op))
                if tok and gap.count(tok) >= 1 and type(op) in SWAP:
                    k = gap.rfind(tok) if tok in ('in', 'is') else gap.find(tok)
                    if tok == 'in' and 'not in' in gap:
                        prev = comp
                        continue
                    out.append((a + k, a + k + len(tok), SWAP[type(op)],
                                f'{where}:{n.lineno} {tok} -> '
                                f'{SWAP[type(op)]}'))
                prev = comp
        elif isinstance(n, ast.BoolOp):
            tok = 'and' if isinstance(n.op, ast.And) else 'or'
            new = 'or' if tok == 'and' else 'and'
            a = span(n.values[0])[1]
            b = span(n.values[1])[0]
            gap = src[a:b]
            k = gap.find(tok)
            if k >= 0:
                out.append((a + k, a + k + len(tok), new,
                            f'{where}:{n.lineno} {tok} -> {new}'))
        elif isinstance(n, ast.UnaryOp) and isinstance(n.op, ast.Not):
            a, b = span(n)
            inner = span(n.operand)
            out.append((a, inner[0], '', f'{where}:{n.lineno} drop not'))
        elif isinstance(n, ast.Constant) and type(n.value) is int \
                and 0 <= n.value <= 3:
            a, b = span(n)
            if src[a:b] == str(n.value):
                out.append((a, b, str(n.value + 1),
                            f'{where}:{n.lineno} {n.value} -> {n.value + 1}'))
        elif isinstance(n, ast.BinOp) and isinstance(n.op, (ast.Add, ast.Sub)):
            tok = '+' if isinstance(n.op, ast.Add) else '-'
            a = span(n.left)[1]
            b = span(n.right)[0]
            gap = src[a:b]
            k = gap.find(tok)
            if k >= 0:
                out.append((a + k, a + k + 1, '-' if tok == '+' else '+',
                            f'{where}:{n.lineno} {tok} swapped'))
    out.sort()
    return out


def sh(cmd, cwd=None, env=None, timeout=3600):
    p = subprocess.run(cmd, shell=True, cwd=cwd, env=env,
                       stdout=subprocess.PIPE, stderr=subprocess.STDOUT,
                       text=True, timeout=timeout, errors='replace')
    return p.returncode, p.stdout


def main(argv):
    mode, rel = argv[0], argv[1]
    props = argv[2].split(',') if mode == 'run' else []
    mx = int(argv[argv.index('--max') + 1]) if '--max' in argv else 10 ** 9
    seed = int(argv[argv.index('--seed') + 1]) if '--seed' in argv else 0
    outp = argv[argv.index('--out') + 1] if '--out' in argv else None
    only = argv[argv.index('--func') + 1] if '--func' in argv else None
    src = open(os.path.join(REPO, rel), encoding='utf8').read()
    if len(src.encode()) != len(src):
        # keep offsets simple: non-ASCII characters only in comments/docs
        pass
    ss = sites(src)
    if only:
        ss = [s for s in ss if s[3].startswith(only + ':')]
    random.Random(seed).shuffle(ss)
    ss = ss[:mx]
    if mode == 'list':
        for s in ss:
            print(s[3], repr(src[s[0]:s[1]]), '->', repr(s[2]))
        print(len(ss), 'sites')
        return 0
    scratch = f'/tmp/verif-scratch-mut-{os.getpid()}'
    sh(f'{VERIF}/selftest/mk_scratch.sh {scratch}')
    try:
        for (a, b, new, desc) in ss:
            mutated = src[:a] + new + src[b:]
            try:
                ast.parse(mutated)
            except SyntaxError:
                continue
            with open(os.path.join(scratch, rel), 'w', encoding='utf8') as f:
                f.write(mutated)
            rc, out = sh('/venv/bin/python -m pytest -q -x -p no:cacheprovider',
                         cwd=scratch, timeout=900)
            rec = {'file': rel, 'mutation': desc, 'tests': 'pass' if rc == 0
                   else 'killed'}
            if rc == 0:
                rec['checks'] = {}
                for p in props:
                    env = dict(os.environ, VERIF_REPO=scratch,
                               VERIF_EVIDENCE=os.path.join(scratch, 'ev.json'))
                    rc2, out2 = sh(f'./vcheck {p}', cwd=VERIF, env=env,
                                   timeout=3000)
                    first = [l for l in out2.splitlines()
                             if l.startswith('VIOLATION')][:1]
                    rec['checks'][p] = {'rc': rc2, 'first': first}
                    if rc2 == 1:
                        break           # caught: enough
                rec['caught'] = any(c['rc'] == 1
                                    for c in rec['checks'].values())
            line = json.dumps(rec)
            print(line, flush=True)
            if outp:
                with open(outp, 'a') as f:
                    f.write(line + '\n')
            with open(os.path.join(scratch, rel), 'w', encoding='utf8') as f:
                f.write(src)
    finally:
        sh(f'rm -rf {scratch}')
    return 0


if __name__ == '__main__':
    sys.exit(main(sys.argv[1:]))
