#!/bin/sh
# usage: run_mutant.sh <ID> <file-relative-to-repo> <sed-expression> [vcheck args...]
# Applies one sed edit to a scratch copy of /repo and runs the check there.
ID=$1; F=$2; E=$3; shift 3
S=/tmp/verif-scratch-$$
/verif/selftest/mk_scratch.sh $S >/dev/null
sed -i "$E" $S/$F
if (cd $S && git diff --quiet); then echo "MUTANT DID NOT APPLY"; rm -rf $S; exit 3; fi
(cd $S && /venv/bin/python -m pytest -q -x -p no:cacheprovider 2>&1 | tail -1)
VERIF_REPO=$S VERIF_EVIDENCE=$S/ev.json /verif/vcheck $ID "$@" | grep -v "^  counterexample" | cut -c1-300
rc=$?
rm -rf $S
