#!/usr/bin/env python3
"""Regenerates MANIFEST.json from the table below (kept in one place so the
manifest stays valid while checks are added)."""
import json, os
D = os.path.dirname(os.path.abspath(__file__))

CHECKS = {
 'C01': dict(
   category='model_checking', design_ref='DESIGN.md 5 C01',
   technique='exhaustive exploration (z3 all-SAT over verdict and schedule choice vectors) of complete runs of the real cli.ddsmt_main with real files; only the command is a model (reference reader + oracle)',
   text='For 8 configurations spanning the three strategies, -j 1/-j 2, the three output formats and three oracle families, every verdict function and pool schedule within the budgets: each content written to the output file and the file left at exit has the token sequence of a candidate file the command was run on and answered like the golden run; the input file is byte-identical afterwards; nothing else is written outside the temporary directory. The command model differs from the golden run in exactly one of exit code / stdout / stderr on rejected candidates and the runs use --match-out / --match-err / --ignore-out / --ignore-err, so every stream matters. A real fork pool confirms that every process and thread gets its own candidate file (auxiliary). Generality beyond the scenarios rests on C05 (chain), C07 (renderers), C08 (parser), C09 (comparison).',
   note="Trusted: the nondeterministic environment of vlib/stubs/strat.py (oracle families: first-V free verdicts, hash classes, required tokens, consistent numerals; FakePool with atomic pull/execute/deliver steps; plain abort flag); z3 as exhaustive enumerator of choice vectors (all-SAT, generalised to the bits each run read). The strategy code itself runs natively, unmodified. Outside: real processes and torn reads between feeder thread and main thread; more free verdicts / scheduling choices than the budget; other inputs than the scenario scripts."),
 'C02': dict(
   category='model_checking', design_ref='DESIGN.md 5 C02',
   technique='exhaustive exploration (z3 all-SAT over verdict and schedule choice vectors) of the real strategy_hierarchical.reduce (and hybrid), followed by an independent proposal enumerator on the result that queries the same oracle',
   text='For every verdict function of four oracle families and every pool schedule within the budgets, on 9 scenario configurations: after reduce() returns, no proposal of any mutator of the last pass on any node of the result is accepted by the oracle; untested candidates get free verdicts, so a candidate skipped for good is found as a satisfiable acceptance.',
   note="Trusted: the nondeterministic environment of vlib/stubs/strat.py (oracle families: first-V free verdicts, hash classes, required tokens, consistent numerals; FakePool with atomic pull/execute/deliver steps; plain abort flag); z3 as exhaustive enumerator of choice vectors (all-SAT, generalised to the bits each run read). The strategy code itself runs natively, unmodified. Outside: real processes and torn reads between feeder thread and main thread; more free verdicts / scheduling choices than the budget; other inputs than the scenario scripts."),
 'C03': dict(
   category='model_checking', design_ref='DESIGN.md 5 C03',
   technique='exhaustive exploration (z3 all-SAT over the verdict bits of a hash-class oracle family) of the real strategies asserting that no accepted input repeats; bounded-exhaustive enumeration of all two-step proposal chains and a step bound on every mutator call (concrete, auxiliary)',
   text='Bounded claim (unbounded termination is not decidable here - no ranking function, docs/faq.rst): under every command of the hash-class family - which contains the adversarial commands that accept exactly the members of a would-be cycle - the hierarchical, ddmin and hybrid strategies never accept an input they accepted before, on 12 cycle-prone scripts with all 61 mutators enabled; no proposal leaves its input unchanged and no two proposals in sequence lead back to the start (about 170 000 chains on the hand-written scripts and 520 000 on the scripts of the typed term generator in the quick tier), except inside the region of known finding C03-replace-by-variable-eliminate-variable, which is replayed and reported on every run; every filter/mutations/apply call stays below 64 (n+1)^2 node constructions.',
   note='Trusted: oracle/pool stubs (C05); z3 as exhaustive enumerator. Outside: chains longer than two steps that no explored run follows; inputs outside the corpus; runs with more than 40 acceptances are cut off and counted.'),
 'C04': dict(
   category='model_checking', design_ref='DESIGN.md 5 C04',
   technique='bounded symbolic execution (CrossHair/z3): parser on every text up to the bound without the balancedness precondition; theory detection / collect_information / counting / rendering on command trees whose identifier leaves are symbolic strings (the solver finds the magic names); exit-status and usage-error mapping with symbolic outcomes; exception isolation by bounded enumeration',
   text='Whole runs of cli.ddsmt_main on degenerate inputs (atoms only, comments, empty lists, empty file) under every verdict vector in the bound end without an exception (e2e_*). No exception escapes parse_smtlib for any text up to the bound; none escapes auto_detect_theories (all is_relevant), collect_information, count_* or the renderer on any command tree shape up to the bound with an arbitrary identifier at the command position or at any one other leaf; __main__.main returns 0 iff ddsmt_main completed and the executable exits with exactly that value (rc symbolic in 0..255); every usage error of check_options is one one-line DDSMTException. A mutator raising any of 7 exception classes at any call site costs only its own candidates in both strategies (224 combinations each, enumerated).',
   note='Trusted: CrossHair/z3 string model; hash shim T; Node.__format__ shim; fake os.path in the usage harness; the isolation sub-check is concrete enumeration (auxiliary). Outside: more than one non-command symbolic identifier at a time, deeper trees, failures inside real worker processes.'),
 'C05': dict(
   category='model_checking', design_ref='DESIGN.md 5 C05',
   technique='exhaustive exploration (z3 all-SAT over verdict and schedule choice vectors) of the real strategy_ddmin.reduce / strategy_hierarchical.reduce on a fake process pool with an explicit scheduler; chain relation asserted over recorded derivations, verdicts and writes',
   text='For every verdict function (three oracle families) and every schedule (J up to 2 quick / 3 thorough; pull / execute one of the first J queued tasks / deliver; several simultaneous successes, successes arriving after the abort signal) within the budgets, on 10 scenario configurations incl. ddmin through _check_par: each write of the output file was accepted before, derives from the previously written input by one recorded application of a simplification, the returned input is the last written, and every input handed to a TaskGenerator/Producer has pairwise distinct node ids.',
   note="Trusted: the nondeterministic environment of vlib/stubs/strat.py (oracle families: first-V free verdicts, hash classes, required tokens, consistent numerals; FakePool with atomic pull/execute/deliver steps; plain abort flag); z3 as exhaustive enumerator of choice vectors (all-SAT, generalised to the bits each run read). The strategy code itself runs natively, unmodified. Outside: real processes and torn reads between feeder thread and main thread; more free verdicts / scheduling choices than the budget; other inputs than the scenario scripts."),
 'C06': dict(
   category='model_checking', design_ref='DESIGN.md 5 C06',
   technique='bounded symbolic execution (CrossHair/z3) with a symbolic crash point: the real write_smtlib_to_file, directly and through the real strategies, on a POSIX-like fake file system whose every operation is a step; the content visible to a reader is checked after every step and after the crash',
   text='For every step index n (symbolic) at which the process dies, every output format, and at every instant in between at which a concurrent reader may open the file: the output path shows the complete text of the previous or the new accepted input during a rewrite and of the last accepted input otherwise; nothing but the output file and temporary siblings is opened for writing; no temporary file is left after a completed run. Covers three successive rewrites directly and all write sites reached by complete hierarchical and ddmin runs.',
   note='Trusted: the fake file system (open(w) truncates at once, writes are immediately visible, os.replace atomic, crashes happen between operations); oracle/pool stubs of C05 for the strategy runs. Outside: the real kernel/file system, power loss, removal of the temporary directory at interpreter exit.'),
 'C07': dict(
   category='model_checking', design_ref='DESIGN.md 5 C07',
   technique='bounded symbolic execution (CrossHair/z3): symbolic text -> real parser -> each real renderer -> read back by the reference reader and the real parser; tree-level variant with lexemes of symbolic kind/content; line wrapping with symbolic width and with a long concrete context',
   text='Four renderers (compact file for the command, default, --pretty-print, --wrap-lines) x every text up to the length bound, plus every forest shape up to the bound whose leaves are lexemes of symbolic kind (simple token, string literal, quoted symbol, comment) with a symbolic character inside: the token sequence read back equals the input tokens and re-parsing gives the same tree. The line-breaking writer is additionally explored for every width 0..6 and, through the real --wrap-lines path, on lines that cross column 78.',
   note='Trusted: CrossHair/z3 string model, refreader (shared with C08), in-memory file replacing open() for the compact writer, hash shim S, Node.__format__ shim. Outside: longer texts / larger forests; leaves with more than one symbolic character.'),
 'C08': dict(
   category='model_checking', design_ref='DESIGN.md 5 C08',
   technique='bounded symbolic execution (CrossHair/z3) of nodeio.parse_smtlib against a reference SMT-LIB reader on a fully symbolic text, path-exhaustive per partition; counterexamples replayed natively',
   text='Every Unicode text up to the stated length (quick 4, thorough 6 characters, plus lexeme-level texts in thorough) is covered: each explored path stands for all texts satisfying its path condition and z3 shows the remaining branches infeasible. Bounded, not a proof for longer texts; lexer bugs sit at boundaries between two or three adjacent lexeme classes, which the bound covers.',
   note='Trusted: CrossHair 0.0.110 string model and z3; the 60-line reference reader (validated against the repository\'s own parser tests at start-up); hash shim mode S. Outside: longer texts, token directly followed by a quote without separator, unbalanced input.'),
 'C09': dict(
   category='model_checking', design_ref='DESIGN.md 5 C09',
   technique='bounded symbolic execution (CrossHair/z3) of checker.matches_golden / check / execute with all options, golden records and run outcomes symbolic, against the documented rule; exhaustive per partition',
   text='All combinations of the nine comparison options, match strings, exit codes (unbounded ints) and streams (strings up to the bound) are solver-quantified; check() wiring is verified for main and cross-check command, execute() argv and the candidate file extension with fakes for Popen/resource/tempfile. Every partition must come back exhausted. In addition (partition e2rule) the current source of matches_golden is translated into a z3 formula over strings of any length, optional streams and optional exit codes (vlib/py2smt.py) and proved equivalent to the documented rule, together with the obligation that it never raises.',
   note='Trusted: CrossHair/z3 string and int models; the 170-line AST-to-z3 translator for the if/return/not/and/or/==/in subset (it refuses anything else); spec_checker.py (12-line restatement of docs/quickstart.rst). Stubs: checker.execute (wiring), subprocess/resource/tempfile fakes (invoke). Outside: strings longer than the bound, a real subprocess.'),
 'C10': dict(
   category='model_checking', design_ref='DESIGN.md 5 C10',
   technique='bounded symbolic execution (CrossHair/z3) of checker.execute / check / do_golden_runs / limit_resources with a nondeterministic fake Popen (time-out or finish, any return code), symbolic real-valued run times and limits, symbolic streams and options',
   text='Decides, for every outcome of the command process (finishes with any exit code incl. signals, or exceeds the limit), every option valuation and every real-valued golden run time / explicit limit: the child is killed and nothing blocks on it, the time-out record is rejected unless the golden run ended the same way, check() never raises, a missing match string ends ddSMT with status 1, the default limit is 1.5 x (runtime + 1) (up to rounding to 2 decimals), RLIMIT_CPU = ceil(limit), RLIMIT_AS = memout MiB on the child pid.',
   note='Trusted: CrossHair/z3; fake Popen/resource modules (contract: communicate(timeout) returns or raises TimeoutExpired); times modelled as mathematical reals (IEEE rounding outside); log formatting stubbed (vlib/stubs/nofmt.py). Outside: kernel enforcement of rlimits, grandchildren holding pipes, total wall time of a run.'),
 'C11': dict(
   category='model_checking', design_ref='DESIGN.md 5 C11',
   technique='bounded symbolic execution (CrossHair/z3) of nodes.substitute / apply_simp / introduce_variables against a nested-list model; symbolic leaf texts (all aliasing patterns), symbolic choice of designated positions, eight kinds of replacement maps',
   text='For every forest shape up to the bound, every aliasing pattern between leaf texts, keys and replacement texts (solver-quantified strings) and every choice of pairwise non-nested designated positions: result equals the model, the base is not modified, untouched subtrees are the same objects, the call terminates within its fuel, fresh declarations land after the set-info/set-logic prefix (prefix identifiers are symbolic strings).',
   note='Trusted: CrossHair/z3, listmodel.subst_paths (30 lines). Hash shim S, id counter reset per path. Outside: larger trees, more than three map entries, multi-character leaves.'),
 'C12': dict(
   category='model_checking', design_ref='DESIGN.md 5 C12',
   technique='bounded symbolic execution (CrossHair/z3) of Node.__eq__/__hash__/__deepcopy__/__getstate__/__setstate__ and the traversals against a nested-list model, symbolic leaf texts and a symbolic member of a hash-function family (colliding .. collision-free)',
   text='All pairs of tree shapes up to the bound with symbolic leaf texts: equality == structural equality, symmetric, equal => equal hash, also when subtrees are shared and when the hash function collides; deepcopy gives an equal tree with fresh pairwise-distinct ids; the (un)pickling callbacks round-trip shape, ids, hashes for a leaf of arbitrary code points; dfs/bfs/count_*/filter_nodes agree with the model for every depth limit. A real fork pool confirms that ids never coincide across processes and that trees return unchanged (auxiliary, concrete).',
   note='Trusted: CrossHair/z3 (incl. its UTF-8 encode/decode model), listmodel, hash family H, native struct shim. binary_search is checked by concrete enumeration (float arithmetic; auxiliary, not solver-decided). Outside: larger trees, transport between real processes.'),
 'C13': dict(
   category='model_checking', design_ref='DESIGN.md 5 C13',
   technique='bounded exhaustive exploration (CrossHair path enumeration, z3 bookkeeping) of nodes.reduplicate on all DAGs obtained from forests up to the bound by re-using up to two earlier objects',
   text='For every forest up to the bound and every way of inserting one or two earlier objects (leaf, subtree, empty list) at later non-nested positions: ids pairwise distinct afterwards, tokens unchanged, input not modified, already-unique nodes keep their identity, first occurrence of a shared node keeps its id. The choices are enumerated path by path - a bounded exhaustive claim. Call sites: along every run of the real ddmin / hierarchical / hybrid strategies under three oracle families (z3 all-SAT over the verdict bits) every input handed to a TaskGenerator or Producer has pairwise distinct ids.',
   note='Trusted: CrossHair path bookkeeping. Outside: larger forests, more than two shared insertions; the call sites in the strategies are asserted in the C05 harness.'),
 'C14': dict(
   category='model_checking', design_ref='DESIGN.md 5 C14',
   technique='bounded symbolic execution (CrossHair/z3): one step of the option state machine from an arbitrary namespace state (inductive), mutator lookup and pass construction under symbolic enable flags, theory auto-detection over all declaration/user-setting patterns; real argparse end-to-end by enumeration',
   text='Each of the 139 option strings is applied by its real Action to a namespace whose mutator flags are symbolic: written attributes equal the documented constants, every other attribute is the identical object (so sequences of any length follow by induction). get_mutators returns an instance of exactly the named class iff its flag holds; hierarchical last pass = enabled set, all passes within it, ddmin schedules every enabled mutator except BinaryReduction; auto-detection disables a theory group only if it was not set by the user and nothing of the theory is declared (all 32x32 patterns x 3 declaration forms), and never enables anything.',
   note='Trusted: CrossHair/z3; registries mutators_<group>.get_mutators() as the naming source; argparse left-to-right action order (validated end to end for all single options and ordered pairs - concrete enumeration, auxiliary). Values of user-set group options are concrete in the detect harness.'),
 'C15': dict(
   category='model_checking', design_ref='DESIGN.md 5 C15',
   technique='bounded symbolic execution (CrossHair/z3) of StringSimplifyConstant -> apply_simp -> renderer -> reference reader on string literals with symbolic content; plus concrete enumeration of every node x mutator x proposal on a corpus of scripts over all theories (auxiliary)',
   text='Solver-decided part: for every string-literal content up to the bound (any code points, doubled quotes, backslashes) every proposal of the string-shortening mutator renders to text that reads back as exactly the tree in memory. Enumerated part: on 11 corpus scripts covering all theories and the naming collisions the mutators can run into, every proposal of all 61 mutators designates nodes of the input, applies and renders without error, reads back token for token, and declares only fresh symbols before their first use.',
   note='Trusted: CrossHair/z3 string model, refreader. Symbol names and decimals could not be made solver-quantified (str-keyed tables and float() realise symbolic strings) - they are covered by corpus scripts only, i.e. by sampling; the claim for them is limited to the corpus. Mutator exceptions are counted, not violations (C04).'),
 'C16': dict(
   category='model_checking', design_ref='DESIGN.md 5 C16',
   technique='bounded symbolic execution (CrossHair/z3) of smtlib.collect_information / get_sort / get_bv_width on generated well-sorted terms with symbolic numerals (widths, indices, extension amounts, fp sizes); generator typing validated with z3; default constants and every same-sort replacement proposed on the generated scripts sort-checked with z3; differential sort inference against z3 (confirmed by cvc5 under strict parsing) for every operator string occurring in the current source of smtlib.py',
   text='About 200 operator/argument-kind families covering every operator the inference code knows (bit-vectors incl. indexed operators, FP, Ints/Reals, Core, Strings, Arrays, datatypes, let/quantifier binders) with operands that are variables, constants, applications of declared functions (sort unknown to ddSMT) or nested applications; numerals are symbolic integers, so one explored path covers every width/index value in range. For every subterm: inferred sort is None or the actual sort, inferred width is -1 or the actual width. Differential part (sig_*): for every operator-like string constant of the current smtlib.py source (plus standard operators it does not know) applied to every tuple (arity 1-3) from a pool of variables, constants and applications of all sorts, whenever z3 accepts the term, get_sort is None or the sort z3 computes and get_bv_width is -1 or the width z3 computes (400 000 candidate terms in quick); a disagreement is reported only if cvc5 with strict parsing also types the term differently from ddSMT. Consequence clause (conseq_*): on every generated script with concrete numerals, every proposal of Constants, ReplaceByVariable and IntroduceFreshVariable at every term position yields a script that z3 accepts as well-sorted; proposals inside the region of known finding C16-bound-symbol-out-of-scope (a binder-bound symbol offered outside its binder) are counted separately.',
   note='Trusted: CrossHair/z3; the generator typing (validated against z3 on concrete instances each run); hash shim T. Numerals 1..99 (digit count forks), repeat counts concrete. Outside: define-sort, parametric datatypes, match, deeper nesting.'),
 'C17': dict(
   category='translation_validation', design_ref='DESIGN.md 5 C17',
   technique='translation validation with z3 (cvc5 cross-check in thorough): each (original, replacement) pair produced by the real mutator code on generated instances is decided as an SMT query over uninterpreted operands',
   text='For every instance of 22 rewrite families (all constants/notations, indices, extension amounts and widths up to the bound; operands are declared symbols or applications of declared functions, so the solver quantifies over all operand values and all interpretations) the replacement produced by the real filter/mutations/apply_simp code is proved equal to the original (unsat of the negated equality) or a separating assignment is returned; a sort error of the query means the sort is not preserved.',
   note='Trusted: z3 (and cvc5) semantics of SMT-LIB. Widths/indices/constants are enumerated up to the bound (z3 sorts cannot be symbolic in width); operand shapes are a leaf or one application. n-ary forms outside the documented binary forms are not claimed. Proposals on which a mutator raises are counted and reported under C04.'),
 'C18': dict(
   category='model_checking', design_ref='DESIGN.md 5 C18',
   technique='exhaustive exploration (z3 all-SAT): the real strategies with one job run twice under the same token-deterministic oracle, once with the lazy and once with an arbitrary single-worker schedule; write sequences compared',
   text='For every verdict function (hash-class and required-token oracles) and every timing of the single-worker pool within the budgets (how far the feeder runs ahead, when results are delivered), on 8 configurations over all three strategies: the sequence of accepted inputs and the final input are identical to those of the lazy schedule. Known finding C18-fresh-name-node-id (names of fresh variables contain node ids, which depend on timing) is compared modulo the number and replayed raw on every run. Hash-seed independence is only sampled: the same runs in separate interpreters under 6 (quick) / 24 (thorough) PYTHONHASHSEED values (auxiliary).',
   note="Trusted: the nondeterministic environment of vlib/stubs/strat.py (oracle families: first-V free verdicts, hash classes, required tokens, consistent numerals; FakePool with atomic pull/execute/deliver steps; plain abort flag); z3 as exhaustive enumerator of choice vectors (all-SAT, generalised to the bits each run read). The strategy code itself runs natively, unmodified. Outside: real processes and torn reads between feeder thread and main thread; more free verdicts / scheduling choices than the budget; other inputs than the scenario scripts. Independence from PYTHONHASHSEED is sampled only; process ids are not examined."),
}
NOT_APPLICABLE = {}
ALL = ['C%02d' % i for i in range(1, 19)]

def main():
    checks = []
    for pid in ALL:
        if pid not in CHECKS:
            continue
        c = CHECKS[pid]
        checks.append({
            'property_id': pid,
            'quick_cmd': f'./vcheck {pid} --tier quick',
            'thorough_cmd': f'./vcheck {pid} --tier thorough',
            'evidence_file': f'/verif/evidence/{pid}.json',
            'replay_cmd_template': './vcheck --replay {path}',
            'engine': 'crosshair-z3',
            'level_claimed': {'category': c['category'], 'text': c['text'], 'design_ref': c['design_ref']},
            'level_note': c['note'],
            'technique': c['technique'],
        })
    na = [{'property_id': p, 'reason': NOT_APPLICABLE.get(p, 'check not built yet in this round (design in DESIGN.md section 5); not claimed until its harness is committed')}
          for p in ALL if p not in CHECKS]
    m = {
     'version': 1,
     'setup_cmd': './setup.sh',
     'hooks': {'guard': 'DDSMT_VERIF', 'enable': 'no hooks in /repo: all stubs are injected into module namespaces by the harness processes', 'baseline_off_cmd': 'cd /repo && /venv/bin/python -m pytest -ra -q -p no:cacheprovider --timeout=900 --continue-on-collection-errors', 'source_commits': [], 'add_only': True},
     'engines': [
       {'name': 'crosshair-z3', 'path': '/verif/vlib/engine.py', 'serves_properties': sorted(CHECKS), 'kind_free_text': 'CrossHair 0.0.110 explore_paths over the real ddsmt functions with z3 5.1 deciding every branch; partitions run as parallel processes; counterexamples replayed natively (vlib/replay.py)'},
     ],
     'checks': checks,
     'not_applicable': na,
     'notes': 'Solver-based checking of the real code; see DESIGN.md. Fixes to /repo are separate "fix:" commits listed in KNOWN_FINDINGS.jsonl.',
    }
    json.dump(m, open(os.path.join(D, 'MANIFEST.json'), 'w'), indent=1)
    print('checks:', [c['property_id'] for c in checks], 'n/a:', len(na))

if __name__ == '__main__':
    main()
