"""C14 - exactly the enabled mutators are used.

E1 over the real option actions, mutator lookup, pass construction and
automatic theory detection:
  step    one option string applied by its real argparse Action to an
          *arbitrary* namespace state (all ~70 mutator/group attributes
          symbolic): written attributes follow the documented semantics,
          everything else is untouched.  By induction over the option
          sequence this covers sequences of any length (argparse applies
          actions left to right - validated end to end, see e2e).
  lookup  get_mutators([name]) under an arbitrary flag valuation
  passes  hierarchical / ddmin pass lists under symbolic flags
  detect  auto_detect_theories for every pattern of theory declarations and
          every tri-state of the group options
  e2e     real parse_options on all single options and ordered pairs
          (concrete enumeration, auxiliary)
"""
import argparse

from vlib.engine import assume, Violation

ID = 'C14'
LEVEL = 'model_checking'
FUNCTIONS = ['ddsmt.options:ToggleAction', 'ddsmt.mutators:TheoryToggleAction',
             'ddsmt.mutators:DisableAllTheoriesAction',
             'ddsmt.mutators:toggle_theory',
             'ddsmt.mutators:toggle_all_theories',
             'ddsmt.mutators:get_mutators',
             'ddsmt.mutators:get_initialized_mutator',
             'ddsmt.mutators:auto_detect_theories',
             'ddsmt.mutators:collect_mutator_options',
             'ddsmt.strategy_hierarchical:get_passes',
             'ddsmt.strategy_ddmin:ddmin_passes']
ASSUMPTIONS = [
    'the registries mutators_<group>.get_mutators() name the mutators and '
    'their option names (docs/guide-mutators.rst: --<mutator>, '
    '--no-<mutator>, --<group>, --no-<group>, --disable-all)',
    'argparse calls the actions of an option sequence from left to right '
    '(validated end to end for all single options and ordered pairs)',
    'identity of untouched attributes is compared outside tracing',
]
OUTSIDE = ['argparse internals', 'option sequences longer than two in the '
           'end-to-end harness (the step harness is inductive)']

_CTX = {}


def ctx():
    """Registry facts and the real parser (built once per process)."""
    if _CTX:
        return _CTX
    from ddsmt import options, mutators, argparsemod
    captured = {}
    orig = argparsemod.ModularArgumentParser.parse_args

    def spy(self, *a, **k):
        captured['parser'] = self
        return orig(self, *a, **k)

    argparsemod.ModularArgumentParser.parse_args = spy
    try:
        pristine = options.parse_options(mutators,
                                         ['in.smt2', 'out.smt2', 'cmd'])
    finally:
        argparsemod.ModularArgumentParser.parse_args = orig
    parser = captured['parser']
    groups = {}
    names = []       # (class name, option name, group, module)
    for g, (mod, reg) in mutators.get_all_mutators().items():
        groups[g] = []
        for cls, opt in reg.items():
            groups[g].append(opt)
            names.append((cls, opt, g, mod))
    optstrings = ['--disable-all']
    for g in groups:
        optstrings += [f'--{g}', f'--no-{g}']
        for opt in groups[g]:
            optstrings += [f'--{opt}', f'--no-{opt}']
    _CTX.update(parser=parser, pristine=pristine, groups=groups, names=names,
                optstrings=optstrings,
                mattrs=[f'mutator_{o.replace("-", "_")}' for _, o, _, _ in names],
                gattrs=[f'mutators_{g}' for g in groups])
    return _CTX


def attr_of(opt):
    return f'mutator_{opt.replace("-", "_")}'


def spec_step(state, optstr):
    """Documented effect of one option on the {attr: value} state."""
    c = ctx()
    new = dict(state)
    if optstr == '--disable-all':
        new['disable_all'] = True
        for g in c['groups']:
            new[f'mutators_{g}'] = False
            for o in c['groups'][g]:
                new[attr_of(o)] = False
        return new
    val = not optstr.startswith('--no-')
    name = optstr[5:] if optstr.startswith('--no-') else optstr[2:]
    if name in c['groups']:
        new[f'mutators_{name}'] = val
        for o in c['groups'][name]:
            new[attr_of(o)] = val
        return new
    new[attr_of(name)] = val
    return new


def _tri(none, val):
    return None if none else val


def _namespace(mvals, gnone, gvals):
    """gnone entries are concrete bools (chosen by the partition): a group
    option is None (not set by the user) or the symbolic bool in gvals."""
    c = ctx()
    ns = argparse.Namespace(**dict(vars(c['pristine'])))
    for a, v in zip(c['mattrs'], mvals):
        setattr(ns, a, v)
    for a, n, v in zip(c['gattrs'], gnone, gvals):
        setattr(ns, a, None if n else v)
    return ns


def _build_fn(body, extra='', gnone=None):
    """Harness function with one bool per mutator flag and a tri-state per
    group (CrossHair needs explicit annotated parameters)."""
    c = ctx()
    nm, ng = len(c['mattrs']), len(c['gattrs'])
    if gnone is None:
        gnone = [True] * ng
    params = [f'm{i}: bool' for i in range(nm)] + \
             [f'gv{i}: bool' for i in range(ng)]
    src = (f'def h({extra}{", ".join(params)}):\n'
           f'    mvals = [{", ".join(f"m{i}" for i in range(nm))}]\n'
           f'    gvals = [{", ".join(f"gv{i}" for i in range(ng))}]\n'
           f'    return body({extra.replace(": int", "").replace(": bool", "")}'
           f'mvals, GNONE, gvals)\n')
    env = {'body': body, 'GNONE': gnone}
    exec(src, env)
    return env['h']


# ------------------------------------------------------------------ step

def step_check(oi, mvals, gnone, gvals):
    from crosshair.tracers import NoTracing
    c = ctx()
    optstr = c['optstrings'][oi]
    ns = _namespace(mvals, gnone, gvals)
    before = dict(vars(ns))
    action = c['parser']._option_string_actions[optstr]
    action(c['parser'], ns, [], optstr)
    after = vars(ns)
    want = spec_step(before, optstr)
    with NoTracing():
        keys = set(before) | set(after) | set(want)
        changed = {k for k in keys
                   if k not in before or k not in want
                   or want[k] is not before[k]}
        for k in keys:
            if k not in after or k not in want:
                return f'{optstr}: attribute {k} appeared/disappeared'
            if k not in changed:
                if after[k] is not before[k]:
                    return (f'{optstr}: attribute {k} was modified although '
                            f'the option does not concern it')
        for k in changed:
            # documented values are the constants True/False
            if after[k] is not want[k]:
                return f'{optstr}: {k} = {after[k]!r}, documented {want[k]!r}'
    return None


def make_step(lo, hi, allnone):
    def body(oi, mvals, gnone, gvals):
        assume(lo <= oi < hi)
        r = step_check(oi, mvals, gnone, gvals)
        if r:
            raise Violation(r)
    ng = len(ctx()['gattrs'])
    return _build_fn(body, 'oi: int, ', [allnone] * ng)


# ---------------------------------------------------------------- lookup

def lookup_check(mi, mvals, gnone, gvals):
    from ddsmt import options, mutators
    c = ctx()
    ns = _namespace(mvals, gnone, gvals)
    setattr(options, '__PARSED_ARGS', ns)
    cls, opt, g, mod = c['names'][mi]
    res = mutators.get_mutators([cls])
    flag = mvals[mi]
    if flag:
        if len(res) != 1 or type(res[0]).__name__ != cls \
                or type(res[0]).__module__ != mod.__name__:
            return f'{cls} enabled but get_mutators returned {res!r}'
    elif res:
        return f'{cls} disabled but get_mutators returned {res!r}'
    if mutators.get_mutators([cls + 'X', 'NoSuchMutator', '']):
        return 'unknown mutator name yields a mutator'
    if not hasattr(ns, attr_of(opt)):
        return f'option attribute of {cls} missing (defaults to enabled)'
    return None


def make_lookup(lo, hi):
    def body(mi, mvals, gnone, gvals):
        assume(lo <= mi < hi)
        r = lookup_check(mi, mvals, gnone, gvals)
        if r:
            raise Violation(r)
    return _build_fn(body, 'mi: int, ')


# ---------------------------------------------------------------- passes

def _classes(lst):
    return [type(m).__name__ for m in lst]


def passes_check(mvals, gmode=0):
    """mvals: concrete or symbolic flags for all mutators; gmode: the group
    options are all unset (0), all False (1: --disable-all / --no-<group>
    followed by individual options) or all True (2) - the pass lists depend
    on the individual flags only."""
    from ddsmt import options, strategy_hierarchical, strategy_ddmin
    c = ctx()
    ns = _namespace(mvals, [gmode == 0] * len(c['gattrs']),
                    [gmode == 2] * len(c['gattrs']))
    setattr(options, '__PARSED_ARGS', ns)
    enabled = {cls for (cls, _, _, _), v in zip(c['names'], mvals) if v}
    hp = strategy_hierarchical.get_passes()
    norm = []
    for p in hp:
        p = p[0] if isinstance(p, tuple) else p
        norm.append(_classes(p))
    for i, p in enumerate(norm):
        extra = set(p) - enabled
        if extra:
            return f'hierarchical pass {i} uses disabled mutators {sorted(extra)}'
    last = norm[-1]
    if set(last) != enabled:
        return (f'last hierarchical pass lacks enabled mutators '
                f'{sorted(enabled - set(last))}')
    if len(last) != len(set(last)):
        return 'a mutator occurs twice in the last hierarchical pass'
    dp = [_classes(p) for p in strategy_ddmin.ddmin_passes()]
    used = set(dp[0]) | set(dp[1])
    if used - enabled:
        return f'ddmin uses disabled mutators {sorted(used - enabled)}'
    missing = enabled - used - {'BinaryReduction'}
    if missing:
        return f'ddmin never schedules enabled mutators {sorted(missing)}'
    return None


def make_passes(lo, hi):
    def h(mi: int, b0: bool, b1: bool, gmode: int):
        c = ctx()
        assume(lo <= mi < hi)
        assume(0 <= gmode <= 2)
        mvals = [b0] * len(c['names'])
        mvals[mi] = b1
        r = passes_check(mvals, gmode)
        if r:
            raise Violation(r)
    return h


def make_passes2(pairs):
    def h(pi: int, b0: bool, b1: bool, b2: bool):
        c = ctx()
        assume(0 <= pi < len(pairs))
        i, j = pairs[pi]
        mvals = [b0] * len(c['names'])
        mvals[i] = b1
        mvals[j] = b2
        r = passes_check(mvals)
        if r:
            raise Violation(r)
    return h


# ---------------------------------------------------------------- detect

THEORY_DECLS = {
    'arithmetic': ['(declare-const i Int)',
                   '(declare-fun fr (Bool) Real)',
                   '(define-fun di ((p Bool)) Int 1)',
                   '(declare-const ai (Array Bool Int))',
                   '(declare-fun gi (Bool) (Array Real Bool))',
                   '(declare-fun pi (Int) Bool)',
                   '(define-sort MyI () Int)'],
    'bv': ['(declare-const b (_ BitVec 8))',
           '(declare-fun fb (Bool) (_ BitVec 4))',
           '(define-fun db ((p Bool)) (_ BitVec 2) #b01)',
           '(declare-const ab (Array (_ BitVec 4) (_ BitVec 8)))',
           '(declare-fun gb (Bool) (Array Bool (_ BitVec 8)))',
           '(define-fun pb ((v (_ BitVec 8))) Bool true)',
           '(define-sort MyW () (_ BitVec 8))'],
    'datatypes': ['(declare-datatype A ((C)))',
                  '(declare-datatypes ((B 0)) (((D))))'],
    'fp': ['(declare-const f Float32)',
           '(declare-const rm RoundingMode)',
           '(declare-fun ff (Bool) (_ FloatingPoint 5 11))',
           '(declare-const af (Array Bool Float64))',
           '(declare-fun gf (Bool) (Array (_ FloatingPoint 8 24) Bool))',
           '(declare-fun pf (Float16 Bool) Bool)',
           '(define-sort MyF () Float32)'],
    'strings': ['(declare-const s String)',
                '(declare-fun fq (Bool) (Seq Bool))',
                '(define-fun ds ((p Bool)) String "a")',
                '(declare-const as (Array Bool String))',
                '(declare-fun gs (Bool) (Array Bool (Seq Bool)))',
                '(declare-fun ps (String) Bool)',
                '(define-sort MyS () String)'],
}
NFORMS = 7
MIXED = 7      # variant: one declaration over the sorts of several theories
MIXED_SORT = {'arithmetic': 'Int', 'bv': '(_ BitVec 8)', 'fp': 'Float32',
              'strings': 'String'}
NEUTRAL = ['(set-logic ALL)', '(declare-const p Bool)', '(assert p)',
           '(declare-sort U 0)', '(check-sat)']


def _wrap_is_relevant():
    """is_relevant() only ever sees concrete nodes: run it untraced."""
    from crosshair.tracers import NoTracing
    from ddsmt import mutators
    for g, (mod, _) in mutators.get_all_mutators().items():
        f = getattr(mod, 'is_relevant', None)
        if f is not None and not getattr(f, '_verif_wrapped', False):
            def w(node, f=f):
                with NoTracing():
                    return f(node)
            w._verif_wrapped = True
            mod.is_relevant = w


def detect_check(present, variant, mvals, gnone, gvals, traced=True):
    """present: one (concrete) bool per theory with is_relevant; variant:
    which declaration form is used."""
    from ddsmt import options, mutators, nodeio
    c = ctx()
    ns = _namespace(mvals, gnone, gvals)
    setattr(options, '__PARSED_ARGS', ns)
    before = dict(vars(ns))
    # declarations may follow assertions (incremental scripts): every other
    # pattern places them behind the first assert
    late = (sum(1 << k for k, p in enumerate(present) if p) + variant) % 2
    text = NEUTRAL[0] + NEUTRAL[1] + (NEUTRAL[2] if late else '')
    theories = list(THEORY_DECLS)
    if variant == MIXED:
        # one declaration mentions the sorts of all declared theories (in
        # both orders): every one of them is declared by the input
        sorts = [MIXED_SORT[t] for t, p in zip(theories, present)
                 if p and t in MIXED_SORT]
        if sorts:
            text += f'(declare-fun mix ({" ".join(sorts[:-1])}) {sorts[-1]})'
            text += (f'(declare-fun xim ({" ".join(reversed(sorts[1:]))}) '
                     f'{sorts[0]})')
        if present[theories.index('datatypes')]:
            text += THEORY_DECLS['datatypes'][0]
    for t, p in zip(theories, present):
        if p and variant != MIXED:
            forms = THEORY_DECLS[t]
            text += forms[variant % len(forms)]
    text += ''.join(NEUTRAL[2:])
    exprs = list(nodeio.parse_smtlib(text))
    mutators.auto_detect_theories(exprs)
    after = vars(ns)
    gl = list(c['groups'])

    def compare():
        for g in gl:
            ga = f'mutators_{g}'
            attrs = [attr_of(o) for o in c['groups'][g]]
            may_disable = (g in theories and gnone[gl.index(g)]
                           and not present[theories.index(g)])
            touched = [a for a in attrs if after[a] is not before[a]]
            if any(after[a] is not False for a in touched):
                return f'auto-detection enabled a mutator of group {g}'
            if touched and not may_disable:
                return (f'auto-detection disabled {touched[:3]} of group {g} '
                        f'(set by user: {not gnone[gl.index(g)]}, input '
                        f'declares it: '
                        f'{g in theories and present[theories.index(g)]})')
            if may_disable:
                if any(after[a] is not False for a in attrs) \
                        or after[ga] is not False:
                    return (f'group {g} is not declared by the input and was '
                            f'not set by the user but stays enabled')
            elif after[ga] is not before[ga]:
                return f'group option {ga} changed'
        return None

    if traced:
        from crosshair.tracers import NoTracing
        with NoTracing():
            return compare()
    return compare()


def _detect_case(pi, si):
    """(present, gnone) for declaration pattern pi and user-set pattern si."""
    c = ctx()
    gl = list(c['groups'])
    th = list(THEORY_DECLS)
    present = [bool((pi >> k) & 1) for k in range(len(th))]
    gnone = [True] * len(gl)
    for k, t in enumerate(th):
        gnone[gl.index(t)] = not bool((si >> k) & 1)
    return present, gnone


def make_detect(variant, plo, phi):
    def body(pi, si, mvals, gn, gvals):
        assume(plo <= pi < phi)
        assume(0 <= si < 32)
        from crosshair.tracers import NoTracing
        from crosshair.core import realize
        pi, si = realize(pi), realize(si)
        with NoTracing():
            present, gnone = _detect_case(pi, si)
            # a group option set by the user carries a concrete value (the
            # code only asks whether it is None; 'is' would realise a
            # symbolic bool and double the paths per group)
            gvals = [bool((pi + si + k) & 1) for k in range(len(gvals))]
        r = detect_check(present, variant, mvals, gnone, gvals)
        if r:
            raise Violation(r)
    return _build_fn(body, 'pi: int, si: int, ')


# ------------------------------------------------------------------- e2e

def e2e_run(seqs):
    import time
    from ddsmt import options, mutators
    c = ctx()
    t0 = time.time()
    base = {k: v for k, v in vars(c['pristine']).items()}
    bad = None
    n = 0
    for seq in seqs:
        n += 1
        ns = options.parse_options(mutators,
                                   list(seq) + ['in.smt2', 'out.smt2', 'cmd'])
        want = dict(base)
        want.setdefault('disable_all', None)
        for o in seq:
            want = spec_step(want, o)
        got = vars(ns)
        for k in want:
            if k.startswith('mutator') or k == 'disable_all':
                if got.get(k) != want[k] and not (
                        k == 'disable_all' and not got.get(k) and not want[k]):
                    bad = {'seq': list(seq), 'attr': k, 'got': repr(got.get(k)),
                           'want': repr(want[k])}
                    break
        if bad:
            break
    return {'status': 'VIOLATED' if bad else 'CONFIRMED', 'cex': bad,
            'exc': {'type': 'Violation', 'msg': str(bad)} if bad else None,
            'paths': n, 'paths_ok': n, 'samples': [{'seq': list(seqs[0])}],
            'solver_checks': 0, 'solver_seconds': 0.0,
            'wall_s': round(time.time() - t0, 2),
            'note': 'concrete enumeration through real argparse (auxiliary)'}


def _e2e_seqs(tier, chunk, nchunks):
    import random
    import os
    c = ctx()
    opts = c['optstrings']
    singles = [(o,) for o in opts]
    pairs = [(a, b) for a in opts for b in opts]
    if tier == 'quick':
        rnd = random.Random(int(os.environ.get('VERIF_SEED', '0') or 0))
        pairs = rnd.sample(pairs, 1600)
    allseq = singles + pairs
    return allseq[chunk::nchunks]


# ------------------------------------------------- detection happens once

DETECT_SCRIPTS = {
    'bv': '(declare-const b (_ BitVec 4))(declare-const p Bool)'
          '(assert (= (bvnot (bvnot b)) b))(assert (not (not p)))(check-sat)',
    'int': '(declare-const i Int)(declare-const p Bool)'
           '(assert (not (< i 3)))(assert (or p (not p)))(check-sat)',
}


def flags_once(vec, script, strategy):
    """Complete run of cli.ddsmt_main with default options: the enabled set
    in force when each strategy starts equals the set right after the
    automatic theory detection on the *input* (a group may only be disabled
    because the input declares nothing of it - not because minimisation
    removed the declarations later)."""
    import argparse
    import logging
    import os
    import shutil
    import tempfile
    from ddsmt import (cli, checker, options, strategy_ddmin,
                       strategy_hierarchical, progress, tmpfiles, mutators,
                       nodeio)
    from vlib.stubs.strat import Decider, RequiredTokensOracle, FakeMP
    from harness import c01
    c = ctx()
    keys = ['b', 'i', 'p', 'not', 'check-sat', 'assert']
    d = Decider(len(keys), replay=list(vec))
    work = tempfile.mkdtemp(prefix='verif-c14-')
    saved = {}

    def patch(mod, name, val):
        saved[(mod, name)] = getattr(mod, name)
        setattr(mod, name, val)

    snaps = []

    def snap(tag):
        ns = options.args()
        snaps.append((tag, {a: getattr(ns, a) for a in c['mattrs']}))

    try:
        infile = os.path.join(work, 'input.smt2')
        cmd = os.path.join(work, 'solver')
        with open(infile, 'w') as f:
            f.write(DETECT_SCRIPTS[script])
        with open(cmd, 'w') as f:
            f.write('#!/bin/sh\n')
        os.chmod(cmd, 0o755)
        ns = argparse.Namespace(**dict(vars(c['pristine'])))
        ns.infile, ns.outfile = infile, os.path.join(work, 'out.smt2')
        ns.cmd, ns.cmd_cc = [cmd], None
        ns.strategy, ns.jobs = strategy, 1
        ns.quietness = 3
        setattr(options, '__PARSED_ARGS', ns)
        if not hasattr(logging, 'chat'):
            cli.setup_logging()
        orig = c01.toks_of_text(DETECT_SCRIPTS[script])
        oracle = RequiredTokensOracle(d, keys, orig)

        def execute(xcmd, filename, timeout):
            t = c01.toks_of_text(open(filename).read())
            v = oracle.verdict(t)
            return checker.RunInfo(1 if v else 0, '', '', 0.01)

        real_detect = mutators.auto_detect_theories

        def detect(exprs):
            r = real_detect(exprs)
            snap('detect')
            return r

        real_dd, real_h = strategy_ddmin.reduce, strategy_hierarchical.reduce

        def dd(exprs):
            snap('ddmin')
            return real_dd(exprs)

        def hi(exprs):
            snap('hierarchical')
            return real_h(exprs)

        writes = [0]
        real_write = nodeio.write_smtlib_to_file

        def write(fn, exprs):
            writes[0] += 1
            if writes[0] > 80:
                raise SC_Runaway()
            return real_write(fn, exprs)

        mp = FakeMP(d, 4)
        patch(checker, 'execute', execute)
        patch(mutators, 'auto_detect_theories', detect)
        patch(strategy_ddmin, 'reduce', dd)
        patch(strategy_hierarchical, 'reduce', hi)
        patch(strategy_ddmin, 'multiprocessing', mp)
        patch(strategy_hierarchical, 'multiprocessing', mp)
        patch(nodeio, 'write_smtlib_to_file', write)
        patch(cli, 'setup_logging', lambda: None)
        for nm in ('start', 'update', 'finish'):
            patch(progress, nm, lambda *a: None)
        logging.getLogger().setLevel(logging.CRITICAL)
        try:
            cli.ddsmt_main()
        except SC_Runaway:
            return 'skip', d.read
        except SystemExit as e:
            return f'ddsmt_main exited with {e.code!r}', d.read
        if not snaps or snaps[0][0] != 'detect':
            return 'no theory detection before the strategies', d.read
        first = snaps[0][1]
        for tag, fl in snaps[1:]:
            diff = sorted(a for a in first if fl[a] != first[a])
            if diff:
                return (f'{tag} starts with other enabled mutators than the '
                        f'detection on the input left: {diff[:4]} '
                        f'(required tokens {oracle.required})'), d.read
        return None, d.read
    finally:
        for (mod, name), val in saved.items():
            setattr(mod, name, val)
        setattr(strategy_ddmin, '__abort_flag', None)
        try:
            t = getattr(tmpfiles, '__TMPDIR')
            if t is not None:
                t.cleanup()
        except Exception:
            pass
        shutil.rmtree(work, ignore_errors=True)


class SC_Runaway(BaseException):
    pass


def make_flags_run(script, strategy):
    def run():
        from vlib.engine import explore_choices
        return explore_choices(lambda v: flags_once(v, script, strategy), 6,
                               budget_s=160)
    return run


def bounds(tier):
    return {'option_strings': 'all', 'state': 'all mutator/group attributes '
            'symbolic'}


def _chunks(n, k):
    step = max(1, (n + k - 1) // k)
    return [(i, min(n, i + step)) for i in range(0, n, step)]


def partitions(tier):
    c = ctx()
    parts = []
    bud = 160 if tier == 'quick' else 850
    for lo, hi in _chunks(len(c['optstrings']), 4):
        for an in (True, False):
            parts.append({'name': f'step_{lo}_{int(an)}',
                          'fn': make_step(lo, hi, an), 'budget_s': bud,
                          'bounds': {'options': [lo, hi],
                                     'group_options_none': an}})
    for lo, hi in _chunks(len(c['names']), 8):
        parts.append({'name': f'lookup_{lo}', 'fn': make_lookup(lo, hi),
                      'budget_s': bud, 'bounds': {'mutators': [lo, hi]}})
        parts.append({'name': f'passes_{lo}', 'fn': make_passes(lo, hi),
                      'budget_s': bud, 'bounds': {'mutators': [lo, hi]}})
    if tier == 'thorough':
        n = len(c['names'])
        pairs = [(i, j) for i in range(n) for j in range(i + 1, n)]
        for k in range(0, len(pairs), 60):
            parts.append({'name': f'passes2_{k}',
                          'fn': make_passes2(pairs[k:k + 60]),
                          'budget_s': bud})
    for v in ((0, 1, 3, 5, 6, MIXED) if tier == 'quick'
              else range(NFORMS + 1)):
        for plo in range(0, 32, 4):
            parts.append({'name': f'detect_{v}_{plo}',
                          'setup': _wrap_is_relevant,
                          'fn': make_detect(v, plo, plo + 4), 'budget_s': bud,
                          'bounds': {'declaration_form': v,
                                     'declared_patterns': [plo, plo + 4],
                                     'set_by_user_patterns': 32}})
    for sc in DETECT_SCRIPTS:
        for st in ('hybrid', 'ddmin', 'hierarchical'):
            parts.append({'name': f'flags_{sc}_{st}', 'kind': 'choices',
                          'run': make_flags_run(sc, st), 'budget_s': 170,
                          'bounds': {'script': sc, 'strategy': st}})
    nch = 8 if tier == 'quick' else 32
    for k in range(nch):
        parts.append({'name': f'e2e_{k}', 'kind': 'native',
                      'run': (lambda k=k: e2e_run(_e2e_seqs(tier, k, nch))),
                      'budget_s': 600})
    return parts


def replay(part, cex):
    c = ctx()
    nm, ng = len(c['mattrs']), len(c['gattrs'])

    def vals(gnone):
        return ([cex[f'm{i}'] for i in range(nm)], gnone,
                [cex[f'gv{i}'] for i in range(ng)])
    try:
        if part.startswith('step'):
            an = part.endswith('_1')
            return step_check(cex['oi'], *vals([an] * ng))
        if part.startswith('lookup'):
            return lookup_check(cex['mi'], *vals([True] * ng))
        if part.startswith('passes2'):
            n = len(c['names'])
            pairs = [(i, j) for i in range(n) for j in range(i + 1, n)]
            k = int(part.split('_')[1])
            i, j = pairs[k:k + 60][cex['pi']]
            mv = [cex['b0']] * n
            mv[i] = cex['b1']
            mv[j] = cex['b2']
            return passes_check(mv)
        if part.startswith('passes'):
            mv = [cex['b0']] * len(c['names'])
            mv[cex['mi']] = cex['b1']
            return passes_check(mv, cex.get('gmode', 0))
        if part.startswith('detect'):
            v = int(part.split('_')[1])
            present, gnone = _detect_case(cex['pi'], cex['si'])
            mv, gn, gv = vals(gnone)
            gv = [bool((cex['pi'] + cex['si'] + k) & 1) for k in range(ng)]
            return detect_check(present, v, mv, gn, gv, traced=False)
        if part.startswith('flags'):
            _, sc, st = part.split('_')
            r, _ = flags_once(cex['bits'], sc, st)
            return None if r in (None, 'skip') else r
        if part.startswith('e2e'):
            r = e2e_run([tuple(cex['seq'])])
            return str(r['cex']) if r['cex'] else None
    except Exception as e:
        return f'{type(e).__name__}: {e}'
    return None
