"""C13 - the working input is a tree: node identities are pairwise distinct
after ``nodes.reduplicate``.

E1 over the real ``ddsmt.nodes.reduplicate`` on generated DAGs: forests of
every shape up to the bound in which up to two positions (symbolic choice)
re-use the object of an earlier, non-nested position (leaf, subtree or empty
list).  Choices are explored path by path (bounded exhaustive; the solver
keeps the books).
"""
from vlib.engine import assume, Violation
from vlib import trees as T

ID = 'C13'
LEVEL = 'model_checking'
FUNCTIONS = ['ddsmt.nodes:reduplicate', 'ddsmt.nodes:Node.__init__']
ASSUMPTIONS = [
    'sharing arises only by inserting one object at several positions '
    '(what substitute does); a node id is never carried by two different '
    'objects',
    'hash shim mode S',
]
OUTSIDE = ['forests with more nodes than the bound, more than two shared '
           'insertions',
           'call sites: only along the strategy runs explored in the '
           'sites_* partitions (strategy environment of C05)']


def bounds(tier):
    return {'max_nodes': 5 if tier == 'quick' else 6}


def _forests(tier):
    """Forests (1 or 2 trees) with at most max_nodes nodes in total."""
    n = bounds(tier)['max_nodes']
    sh = T.shapes_up_to(n)
    out = [(s,) for s in sh if T.count_shape_nodes(s) >= 2]
    small = T.shapes_up_to(n - 1)
    for a in small:
        for b in small:
            if T.count_shape_nodes(a) + T.count_shape_nodes(b) <= n:
                out.append((a, b))
    return out


def _positions(forest):
    out = []
    for i, s in enumerate(forest):
        out.extend(T.paths(s, (i,)))
    return out


def _nested(p, q):
    k = min(len(p), len(q))
    return p[:k] == q[:k]


def _build(forest, alias, head=None):
    """alias: {q_path: p_path}; returns list of Nodes.  ``head`` (a symbolic
    string in the harness) is the text of the leading leaf of every
    top-level tree, so that code that treats particular commands specially
    is reached."""
    from ddsmt.nodes import Node
    built = {}
    counter = [0]

    def rec(shape, path):
        if path in alias:
            node = built[alias[path]]
        elif shape == 'L':
            counter[0] += 1
            if head is not None and len(path) == 2 and path[1] == 0:
                node = Node(head)
            else:
                node = Node(f'l{counter[0]}')
        else:
            node = Node(*[rec(c, path + (i,)) for i, c in enumerate(shape)])
        built[path] = node
        return node

    return [rec(s, (i,)) for i, s in enumerate(forest)], built


def _tokens(exprs):
    out = []
    for e in exprs:
        if e.is_leaf():
            out.append(e.data)
        else:
            out.append('(')
            out.extend(_tokens(e.data))
            out.append(')')
    return out


def _all(exprs):
    out = []
    for e in exprs:
        out.extend(T.all_nodes(e))
    return out


def _check(forest, alias, head=None):
    from ddsmt import nodes
    exprs, built = _build(forest, alias, head)
    before_tokens = _tokens(exprs)
    before_nodes = _all(exprs)
    before_ids = [n.id for n in before_nodes]
    res = nodes.reduplicate(exprs)
    if _tokens(exprs) != before_tokens or \
            [n.id for n in _all(exprs)] != before_ids:
        return 'reduplicate modified its input'
    if _tokens(res) != before_tokens:
        return f'tokens changed: {_tokens(res)!r} != {before_tokens!r}'
    after_nodes = _all(res)
    ids = [n.id for n in after_nodes]
    if len(set(ids)) != len(ids):
        dup = sorted(i for i in set(ids) if ids.count(i) > 1)
        return (f'node ids not pairwise distinct after reduplicate '
                f'({len(ids) - len(set(ids))} repeated) in '
                f'{" ".join(before_tokens)}; repeated ids {dup}')
    # nodes that were unique and contain no shared node keep their identity
    cnt = {}
    for n in before_nodes:
        cnt[n.id] = cnt.get(n.id, 0) + 1

    def clean(n):
        return all(cnt[x.id] == 1 for x in T.all_nodes(n))

    for b, a in zip(before_nodes, after_nodes):
        # positions correspond one to one because the tokens are unchanged
        if clean(b) and a is not b:
            return 'a node that was already unique lost its identity'
    seen = set()
    for b, a in zip(before_nodes, after_nodes):
        if b.id not in seen and cnt[b.id] > 1 and clean_first(b, cnt, seen):
            if a.id != b.id:
                return 'first occurrence of a shared node lost its id'
        seen.add(b.id)
    # a history of two calls: the result is a tree, re-establishing the
    # invariant once more keeps every node
    again = nodes.reduplicate(res)
    for a, a2 in zip(after_nodes, _all(again)):
        if a2 is not a:
            return ('second call of reduplicate on an input that is already '
                    'a tree replaced a node')
    return None


def clean_first(b, cnt, seen):
    # first occurrence and nothing inside it was seen before
    return all(x.id not in seen for x in T.all_nodes(b))


def make(forests):
    def h(i: int, q1: int, p1: int, two: bool, q2: int, p2: int, head: str):
        assume(0 <= i < len(forests))
        assume(1 <= len(head) <= 20)
        forest = forests[i]
        pos = _positions(forest)
        alias = {}
        assume(0 <= p1 < q1 < len(pos))
        assume(not _nested(pos[p1], pos[q1]))
        alias[pos[q1]] = pos[p1]
        if two:
            assume(0 <= p2 < q2 < len(pos) and q2 > q1)
            assume(not _nested(pos[p2], pos[q2]))
            assume(not _nested(pos[q1], pos[q2]))
            assume(not _nested(pos[q1], pos[p2]) or pos[p2] == pos[q1])
            alias[pos[q2]] = pos[p2]
        else:
            assume(q2 == 0 and p2 == 0)
        r = _check(forest, alias, head)
        if r:
            raise Violation(r)
    return h


def _chunks(xs, n):
    k = max(1, (len(xs) + n - 1) // n)
    return [xs[i:i + k] for i in range(0, len(xs), k)]


def _setup():
    from vlib import shims
    shims.install_hash('S')


def check_ids(env, final):
    """Call sites: every input handed to a TaskGenerator / Producer has
    pairwise distinct node ids (recorded by the strategy environment)."""
    if env.dup_ids:
        return (f'an input with repeated node ids was given to '
                f'{env.dup_ids[0]} after the accepted inputs {env.writes!r}')
    return None


SITE_CONFIGS = [('ddmin', 'b', 'elim'), ('hierarchical', 'b', 'elim'),
                ('hybrid', 'b', 'elim'), ('ddmin', 'b', 'mix'),
                ('hierarchical', 'b', 'mix'),
                # replacements that re-use a node of another command (the
                # width leaf of a declared bit-vector sort, datatype sorts)
                ('hierarchical', 'g', 'core'), ('ddmin', 'g', 'core'),
                ('hierarchical', 'm', 'fresh')]


def partitions(tier):
    from harness import c05 as B
    parts = []
    for (st, sc, ms) in SITE_CONFIGS:
        for oracle in ('first', 'hash0', 'req'):
            parts.append({'name': f'sites_{st}_{sc}_{ms}_j1_{oracle}',
                          'kind': 'choices',
                          'run': B.make_run(st, 1, sc, ms, tier, check_ids,
                                            (), oracle),
                          'budget_s': 160 if tier == 'quick' else 850,
                          'bounds': {'strategy': st, 'script': sc,
                                     'mutators': ms, 'oracle': oracle}})
    for k, ch in enumerate(_chunks(_forests(tier), 32)):
        parts.append({'name': f'dag_{k}', 'fn': make(ch), 'setup': _setup,
                      'budget_s': 160 if tier == 'quick' else 850,
                      'bounds': {'forests': len(ch)}})
    return parts


def replay(part, cex):
    import os
    if part.startswith('sites_'):
        from harness import c05 as B
        p = part[len('sites_'):]
        if p.endswith('_first'):
            p = p[:-len('_first')]
        return B.replay(p, cex, check_ids)
    tier = os.environ.get('VERIF_TIER_REPLAY', 'quick')
    ch = _chunks(_forests(tier), 32)[int(part.split('_')[1])]
    forest = ch[cex['i']]
    pos = _positions(forest)
    alias = {pos[cex['q1']]: pos[cex['p1']]}
    if cex['two']:
        alias[pos[cex['q2']]] = pos[cex['p2']]
    try:
        return _check(forest, alias, cex.get('head'))
    except Exception as e:
        return f'{type(e).__name__}: {e}'
