"""C04 - every run completes: no internal failure on any input, meaningful
exit status.

E1 harnesses over the real code:
  text      parse_smtlib never raises, for every text (balanced or not)
  mainproc  theory detection (every is_relevant), collect_information, node
            counting and rendering on trees of every shape up to the bound
            whose leaves are *symbolic identifier strings* - the solver finds
            the magic command/operator names ('declare-const', 'let', ...)
  isolate   a mutator that raises (symbolic choice of the call site and of
            the exception class) costs only its own candidates: ddmin task
            generation / worker and the hierarchical producer / consumer keep
            going and the other mutators' candidates are unaffected
  exit      __main__.main maps completion / MemoryError / KeyboardInterrupt /
            DDSMTException / SystemExit to the return value; bin/ddsmt exits
            with that value
  usage     cli.check_options: every usage error is one DDSMTException whose
            message is a single line
"""
from vlib.engine import assume, Violation
from vlib import trees as T

ID = 'C04'
LEVEL = 'model_checking'
FUNCTIONS = ['ddsmt.nodeio:parse_smtlib', 'ddsmt.mutators:auto_detect_theories',
             'ddsmt.mutators_bv:is_relevant',
             'ddsmt.mutators_arithmetic:is_relevant',
             'ddsmt.mutators_fp:is_relevant',
             'ddsmt.mutators_strings:is_relevant',
             'ddsmt.mutators_datatypes:is_relevant',
             'ddsmt.smtlib:collect_information',
             'ddsmt.strategy_ddmin:TaskGenerator',
             'ddsmt.strategy_ddmin:_worker',
             'ddsmt.strategy_hierarchical:Producer',
             'ddsmt.strategy_hierarchical:Consumer',
             'ddsmt.__main__:main', 'ddsmt.cli:check_options']
ASSUMPTIONS = [
    'hash shim mode T; symbolic leaves are identifier/sort strings that the '
    'code compares with == before it stores them in a table (a table store '
    'realises them)',
    'checker.check_exprs is stubbed (rejects everything) in the isolation '
    'harness; exceptions raised by mutators are subclasses of Exception',
    'os.path.isfile / os.access are replaced by symbolic answers in the usage '
    'harness; cli.ddsmt_main is replaced by a function that completes or '
    'raises in the exit harness',
]
OUTSIDE = ['trees with more than two nesting levels below a command or more '
           'nodes than the bound', 'failures inside real worker processes',
           'a command file that disappears between check_options and its use']


def bounds(tier):
    return {'text_len': 4 if tier == 'quick' else 5,
            'tree_nodes': 4 if tier == 'quick' else 5}


# ------------------------------------------------------------------ text

TEXT_CLASSES = ['(', ')', '"', '|', ';', 'ws', 'other']


def _in_class(c, k):
    if k == 'ws':
        return c == ' ' or c == '\t' or c == '\n' or c == '\r'
    if k == 'other':
        return not (c == '(' or c == ')' or c == '"' or c == '|' or c == ';'
                    or c == ' ' or c == '\t' or c == '\n' or c == '\r')
    return c == k


def make_text(L, first=None):
    def h(text: str):
        from ddsmt import nodeio
        assume(len(text) == L)
        if first is not None:
            assume(_in_class(text[0], first))
        for n in nodeio.parse_smtlib(text):
            pass
    return h


def replay_text(c):
    from ddsmt import nodeio
    try:
        list(nodeio.parse_smtlib(c['text']))
    except Exception as e:
        return f'parse_smtlib({c["text"]!r}) raised {type(e).__name__}: {e}'
    return None


# -------------------------------------------------------------- mainproc

def _pristine_args():
    import argparse
    from ddsmt import options, mutators
    if not hasattr(_pristine_args, 'ns'):
        _pristine_args.ns = options.parse_options(
            mutators, ['in.smt2', 'out.smt2', 'cmd'])
        setattr(options, '__PARSED_ARGS', _pristine_args.ns)
        import logging
        from ddsmt import cli
        cli.setup_logging()       # as ddsmt_main does first (logging.trace)
        logging.getLogger().setLevel(logging.CRITICAL)
    ns = argparse.Namespace(**dict(vars(_pristine_args.ns)))
    setattr(options, '__PARSED_ARGS', ns)
    return ns


def mainproc_body(shape, leaves):
    from ddsmt import mutators, smtlib, nodes, nodeio
    from ddsmt.nodes import Node
    _pristine_args()
    node, model = T.build(shape, leaves, Node)
    exprs = [node]
    what = 'auto_detect_theories'
    try:
        mutators.auto_detect_theories(exprs)
        what = 'collect_information'
        smtlib.collect_information(exprs)
        what = 'count/render'
        nodes.count_nodes(exprs)
        nodes.count_exprs(exprs)
        nodeio.write_smtlib_to_str(exprs)
    except Exception as e:
        return (f'{what} raised {type(e).__name__}: {e} on {model!r}')
    return None


def make_mainproc(shape, which):
    """Leaf number ``which`` is a symbolic string (0: the command
    identifier); the command identifier is otherwise 'assert' and the
    remaining leaves are the concrete 'x'."""
    def h(lw: str):
        k = T.count_leaves(shape)
        leaves = ['x'] * k
        leaves[0] = 'assert'
        assume(1 <= len(lw) <= 20)
        leaves[which] = lw
        r = mainproc_body(shape, leaves)
        if r:
            raise Violation(r)
    return h


def letterm_body(shape, leaves):
    """collect_information infers the sort of every let-bound term: a term of
    any shape and operator must not crash it (main process)."""
    from ddsmt import smtlib
    from ddsmt.nodes import Node
    _pristine_args()
    term, model = T.build(shape, leaves, Node)
    exprs = [Node('declare-const', 'x', ('_', 'BitVec', '4')),
             Node('assert', Node('let', ((Node('v'), term),), 'v'))]
    try:
        smtlib.collect_information(exprs)
        smtlib.get_sort(term)
        smtlib.get_bv_width(term)
    except Exception as e:
        return (f'collect_information/get_sort raised {type(e).__name__}: '
                f'{e} for the let-bound term {model!r}')
    return None


def make_letterm(shape, which):
    def h(lw: str):
        k = T.count_leaves(shape)
        leaves = ['x'] * k
        assume(1 <= len(lw) <= 20)
        leaves[which] = lw
        if which == 1:
            leaves[0] = '_'
        if k > 2:
            leaves[-1] = '3'
        r = letterm_body(shape, leaves)
        if r:
            raise Violation(r)
    return h


def _term_shapes(tier):
    n = bounds(tier)['tree_nodes']
    return [s for s in T.shapes_up_to(n)
            if s != 'L' and len(s) >= 1 and T.count_leaves(s) >= 1
            and T.count_leaves(s) <= 4]


def run_cmdgrid(tier):
    """Auxiliary (concrete): every declaration/definition command with every
    combination of argument shapes up to the bound goes through theory
    detection, collect_information, counting and rendering."""
    import itertools
    import time
    t0 = time.time()
    n = 6 if tier == 'quick' else 7
    cmds = ['declare-datatypes', 'declare-datatype', 'define-fun',
            'declare-fun', 'declare-const', 'define-funs-rec', 'define-sort',
            'declare-sort', 'define-fun-rec', 'let', 'forall', 'assert']
    shapes = T.shapes_up_to(n - 1)
    cnt = 0
    bad = None
    for k in range(0, 4):
        for args in itertools.product(shapes, repeat=k):
            if sum(T.count_shape_nodes(a) for a in args) > n - 2:
                continue
            shape = ('L',) + tuple(args)
            for cmd in cmds:
                leaves = [cmd] + ['x'] * (T.count_leaves(shape) - 1)
                cnt += 1
                r = mainproc_body(shape, leaves)
                if r and bad is None:
                    bad = ({'cmd': cmd, 'shape': T.shape_str(shape)}, r)
    return {'status': 'VIOLATED' if bad else 'CONFIRMED',
            'cex': bad[0] if bad else None,
            'exc': {'type': 'Violation', 'msg': bad[1]} if bad else None,
            'paths': cnt, 'paths_ok': cnt,
            'samples': [{'cmd': 'declare-datatypes', 'shape': '(L(()())(()))'}],
            'solver_checks': 0, 'solver_seconds': 0.0,
            'wall_s': round(time.time() - t0, 2),
            'note': 'concrete grid of command shapes (auxiliary)'}


def _cmd_shapes(tier):
    n = bounds(tier)['tree_nodes']
    return [s for s in T.shapes_up_to(n)
            if s != 'L' and len(s) >= 1 and s[0] == 'L'
            and T.count_leaves(s) <= 5]


# --------------------------------------------------------------- isolate

SITES = ['filter', 'mutations', 'global_mutations', 'iter']
EXCS = [IndexError, AssertionError, KeyError, TypeError, ValueError,
        AttributeError, RecursionError]


class _Boom:
    """A mutator that raises at a chosen call site on a chosen node."""

    def __init__(self, site, exc, victim, glob):
        self.site, self.exc, self.victim, self.glob = site, exc, victim, glob
        if glob:
            self.global_mutations = self._global_mutations
        else:
            self.mutations = self._mutations

    def _hit(self, node):
        return str(node) == self.victim

    def filter(self, node):
        if self.site == 'filter' and self._hit(node):
            raise self.exc('boom in filter')
        return not node.is_leaf()

    def _gen(self, node):
        from ddsmt.mutator_utils import Simplification
        if self.site == 'iter' and self._hit(node):
            raise self.exc('boom while iterating')
        yield Simplification({node.id: None}, [])

    def _mutations(self, node):
        if self.site in ('mutations', 'global_mutations') and self._hit(node):
            raise self.exc('boom in mutations')
        return self._gen(node)

    def _global_mutations(self, node, input_):
        return self._mutations(node)

    def __str__(self):
        return 'boom'


class _Good:
    def filter(self, node):
        return node.has_ident() and node.get_ident() == 'assert'

    def mutations(self, node):
        from ddsmt.mutator_utils import Simplification
        return [Simplification({node.id: None}, [])]

    def __str__(self):
        return 'good'


ISO_SCRIPT = '(declare-const x Int)(assert (> x 1))(assert (< x (+ x 2)))(check-sat)'
VICTIMS = ['(> x 1)', '(assert (< x (+ x 2)))', '(check-sat)', '(+ x 2)']


def isolate_body(site, exc_i, victim_i, glob, strategy):
    import pickle
    from ddsmt import nodeio, strategy_ddmin, strategy_hierarchical, checker
    from ddsmt import smtlib
    _pristine_args()
    exprs = list(nodeio.parse_smtlib(ISO_SCRIPT))
    smtlib.collect_information(exprs)
    boom = _Boom(SITES[site], EXCS[exc_i], VICTIMS[victim_i], glob)
    tested = []
    real = checker.check_exprs
    checker.check_exprs = lambda e: (tested.append(
        nodeio.write_smtlib_to_str(e)), False)[1]

    class Flag:
        def is_set(self):
            return False

    try:
        if strategy == 'ddmin':
            for mut in (boom, _Good()):
                res, ntests, nred = strategy_ddmin._apply_mutator(mut, exprs)
            good_tests = [t for t in tested]
        else:
            prod = strategy_hierarchical.Producer([boom, _Good()], Flag(),
                                                  exprs)
            cons = strategy_hierarchical.Consumer(Flag())
            for task in prod.generate(0, {}):
                ok, t = pickle.loads(cons.check(task))
    except Exception as e:
        return (f'{strategy}: a {EXCS[exc_i].__name__} raised by a mutator in '
                f'{SITES[site]}() escaped: {type(e).__name__}: {e}')
    finally:
        checker.check_exprs = real
    # the well-behaved mutator's candidates (erase one assert each) were
    # still generated and tested
    want1 = '(declare-const x Int)\n(assert (< x (+ x 2)))\n(check-sat)\n'
    want2 = '(declare-const x Int)\n(assert (> x 1))\n(check-sat)\n'
    if want1 not in tested or want2 not in tested:
        return (f'{strategy}: candidates of the other mutator were lost after '
                f'a {EXCS[exc_i].__name__} in {SITES[site]}()')
    return None


def run_isolate(strategy):
    """All (site, exception class, victim node, local/global) combinations,
    run natively: nothing here is solver-quantified (auxiliary, bounded
    exhaustive enumeration)."""
    import time
    t0 = time.time()
    n = 0
    bad = None
    for site in range(len(SITES)):
        for exc_i in range(len(EXCS)):
            for victim_i in range(len(VICTIMS)):
                for glob in (False, True):
                    n += 1
                    r = isolate_body(site, exc_i, victim_i, glob, strategy)
                    if r and bad is None:
                        bad = ({'site': site, 'exc_i': exc_i,
                                'victim_i': victim_i, 'glob': glob}, r)
    return {'status': 'VIOLATED' if bad else 'CONFIRMED',
            'cex': bad[0] if bad else None,
            'exc': {'type': 'Violation', 'msg': bad[1]} if bad else None,
            'paths': n, 'paths_ok': n,
            'samples': [{'site': 'mutations', 'exc': 'IndexError',
                         'victim': VICTIMS[0]}],
            'solver_checks': 0, 'solver_seconds': 0.0,
            'wall_s': round(time.time() - t0, 2),
            'note': 'concrete enumeration (auxiliary)'}


# ------------------------------------------------------------------ exit

KINDS = ['complete', 'MemoryError', 'KeyboardInterrupt', 'DDSMTException',
         'SystemExit']


def exit_body(kind, rc):
    import runpy
    import multiprocessing
    import os
    import io
    import contextlib
    from ddsmt import cli
    import ddsmt.__main__ as M
    _pristine_args()

    def fake_main():
        k = KINDS[kind]
        if k == 'MemoryError':
            raise MemoryError()
        if k == 'KeyboardInterrupt':
            raise KeyboardInterrupt()
        if k == 'DDSMTException':
            raise cli.DDSMTException('input file is not a regular file')
        if k == 'SystemExit':
            raise SystemExit(1)

    real = cli.ddsmt_main
    cli.ddsmt_main = fake_main
    out = io.StringIO()
    try:
        with contextlib.redirect_stdout(out):
            try:
                ret = M.main()
            except SystemExit as e:
                ret = ('exit', e.code)
    finally:
        cli.ddsmt_main = real
    if KINDS[kind] == 'complete':
        if ret != 0:
            return f'main() returned {ret!r} after a complete run'
    elif KINDS[kind] == 'SystemExit':
        if ret != ('exit', 1):
            return f'sys.exit(1) inside ddsmt_main became {ret!r}'
    else:
        if ret != 1:
            return f'main() returned {ret!r} after {KINDS[kind]}'
        if KINDS[kind] == 'DDSMTException' and \
                out.getvalue().count('\n') != 1:
            return f'usage error printed as {out.getvalue()!r}'
    # the executable hands main()'s return value to the shell
    real_main = M.main
    real_ssm = multiprocessing.set_start_method
    M.main = lambda: rc
    multiprocessing.set_start_method = lambda *a, **k: None
    repo = os.environ.get('VERIF_REPO', '/repo')
    status = 0
    try:
        try:
            runpy.run_path(os.path.join(repo, 'bin', 'ddsmt'),
                           run_name='__main__')
        except SystemExit as e:
            status = e.code if e.code is not None else 0
    finally:
        M.main = real_main
        multiprocessing.set_start_method = real_ssm
    if status != rc:
        return (f'bin/ddsmt exits with status {status!r} although main() '
                f'returned {rc!r}')
    return None


def make_exit():
    def h(kind: int, rc: int):
        assume(0 <= kind < len(KINDS))
        assume(0 <= rc <= 255)
        r = exit_body(kind, rc)
        if r:
            raise Violation(r)
    return h


# ----------------------------------------------------------------- usage

def usage_body(c):
    import os
    from ddsmt import cli, options
    ns = _pristine_args()
    ns.infile = 'in.smt2'
    ns.cmd = ['solver', '-x'][:c['ncmd']]
    ns.parser_test = False
    asked = []

    def isfile(p):
        asked.append(p)
        if p == 'in.smt2':
            return c['in_isfile']
        if p.startswith('/usr/bin/'):
            return bool(c.get('on_path'))
        return c['cmd_isfile']

    def access(p, mode):
        if p.startswith('/usr/bin/'):
            return bool(c.get('on_path'))
        return c['cmd_exec']

    import shutil
    real_which = shutil.which
    shutil.which = lambda name, *a, **k: ('/usr/bin/' + name
                                         if c.get('on_path') else None)
    real = (os.path.isfile, os.access)
    os.path.isfile, os.access = isfile, access
    err = None
    try:
        try:
            cli.check_options()
        except cli.DDSMTException as e:
            err = str(e)
        except Exception as e:
            return f'check_options raised {type(e).__name__}: {e}'
    finally:
        os.path.isfile, os.access = real
        shutil.which = real_which
    if err is None:
        # an accepted command line must be usable: the command is copied
        # into the temporary directory next
        import shutil
        from ddsmt import tmpfiles
        copied = []

        def fake_copy(src, dst):
            if not ((src == 'solver' and c['cmd_isfile'])
                    or (src.startswith('/usr/bin/') and c.get('on_path'))):
                raise FileNotFoundError(src)
            copied.append(src)

        real_copy, real_isfile2 = shutil.copy, os.path.isfile
        shutil.copy = fake_copy
        try:
            try:
                tmpfiles.init()
                tmpfiles.copy_binaries()
            except Exception as e:
                return (f'check_options accepted the command line but the '
                        f'command cannot be used: {type(e).__name__}: {e}')
        finally:
            shutil.copy = real_copy
            try:
                getattr(tmpfiles, '__TMPDIR').cleanup()
            except Exception:
                pass
    ok = c['in_isfile'] and c['ncmd'] >= 1 and c['cmd_isfile'] \
        and c['cmd_exec']
    if ok and err is not None:
        return f'valid invocation rejected: {err}'
    if not ok:
        if err is None and c.get('on_path') and c['in_isfile'] \
                and c['ncmd'] >= 1:
            return None     # resolved through PATH and shown to be usable
        if err is None:
            return 'usage error not reported'
        if '\n' in err or not err.startswith('[ddsmt] Error:'):
            return f'usage error is not a one-line diagnostic: {err!r}'
    return None


def make_usage():
    def h(in_isfile: bool, cmd_isfile: bool, cmd_exec: bool, ncmd: int,
          on_path: bool):
        assume(0 <= ncmd <= 2)
        r = usage_body(dict(locals()))
        if r:
            raise Violation(r)
    return h


# -------------------------------------------------------------- plumbing

def _setup_s():
    from vlib import shims
    shims.install_hash('S')


def _setup_t():
    from vlib import shims
    shims.install_hash('T')
    shims.install_node_format()


def _reset():
    from vlib import shims
    from ddsmt import smtlib
    shims.reset_ids()
    smtlib.reset_information()


def _chunks(xs, n):
    k = max(1, (len(xs) + n - 1) // n)
    return [xs[i:i + k] for i in range(0, len(xs), k)]


# ------------------------------------------------------------ declshapes

DECL_HEADS = ('declare-const', 'declare-fun', 'define-fun', 'define-funs-rec',
              'define-fun-rec', 'declare-datatype', 'declare-datatypes',
              'declare-sort', 'define-sort')


def _variants(tree, edits):
    """All trees obtained from the nested-list ``tree`` by at most ``edits``
    edits; an edit deletes one child or replaces a non-leaf child by ()."""
    seen = set()
    out = []

    def key(t):
        return repr(t)

    def single(t):
        res = []
        if isinstance(t, list):
            for i, c in enumerate(t):
                res.append(t[:i] + t[i + 1:])                 # delete child i
                if isinstance(c, list) and c:
                    res.append(t[:i] + [[]] + t[i + 1:])      # child i -> ()
                for sub in single(c):
                    res.append(t[:i] + [sub] + t[i + 1:])
        return res

    frontier = [tree]
    for _ in range(edits):
        nxt = []
        for t in frontier:
            for v in single(t):
                k = key(v)
                if k not in seen:
                    seen.add(k)
                    out.append(v)
                    nxt.append(v)
        frontier = nxt
    return out


def run_declshapes(tier):
    """Auxiliary (concrete): every declaration command of the corpus and of
    the typed scripts with up to two nodes deleted / emptied - the shapes
    node-wise reduction drives declarations through - goes through the
    main-process functions without an exception."""
    import time
    from harness import c15, c16
    from ddsmt import nodeio, mutators, smtlib, nodes
    from ddsmt.nodes import Node
    t0 = time.time()
    _pristine_args()
    decls = {}
    texts = list(c15.CORPUS)
    for fname in ('dt', 'binders', 'deffun', 'arrays', 'strings', 'core',
                  'fp_fp_0', 'concat_1_1'):
        ex = c15.typed_script(fname, (3, 5, 2))
        if ex is not None:
            texts.append(nodeio.write_smtlib_to_str(ex))
    for t in texts:
        for e in nodeio.parse_smtlib(t):
            if e.has_ident() and e.get_ident() in DECL_HEADS:
                decls.setdefault(e.__str__(), T.to_list(e))
    n = 0
    bad = None
    edits = 2
    for text, tree in decls.items():
        big = len(text) > 90
        for v in _variants(tree, 2 if (big and tier == "quick") else (3 if not big else 2)):
            if not isinstance(v, list):
                continue
            n += 1

            def mk(t):
                return Node(*[mk(c) for c in t]) if isinstance(t, list) \
                    else Node(t)
            node = mk(v) if v else Node()
            exprs = [node, Node('assert', Node('=', 'x', 'x'))]
            what = 'auto_detect_theories'
            try:
                _pristine_args()
                mutators.auto_detect_theories(exprs)
                what = 'collect_information'
                smtlib.collect_information(exprs)
                what = 'count/render'
                nodes.count_nodes(exprs)
                nodes.count_exprs(exprs)
                nodeio.write_smtlib_to_str(exprs)
            except Exception as e:
                if bad is None:
                    bad = ({'command': node.__str__()},
                           f'{what} raised {type(e).__name__}: {e} on '
                           f'{node.__str__()!r} (reduced from {text[:80]!r})')
    return {'status': 'VIOLATED' if bad else 'CONFIRMED',
            'cex': bad[0] if bad else None,
            'exc': {'type': 'Violation', 'msg': bad[1]} if bad else None,
            'paths': n, 'paths_ok': n, 'solver_checks': 0,
            'solver_seconds': 0.0,
            'samples': [{'declaration_commands': len(decls)}],
            'wall_s': round(time.time() - t0, 2),
            'note': 'concrete enumeration (auxiliary)'}


def declshape_one(text):
    from ddsmt import nodeio, mutators, smtlib
    _pristine_args()
    exprs = list(nodeio.parse_smtlib(text + '(assert (= x x))'))
    try:
        mutators.auto_detect_theories(exprs)
        smtlib.collect_information(exprs)
        nodeio.write_smtlib_to_str(exprs)
    except Exception as e:
        return f'{type(e).__name__}: {e} on {text!r}'
    return None


# -------------------------------------------------------------- onestep

def run_onestep(fnames, tier, want=None):
    """Auxiliary (concrete): every input one accepted proposal away from a
    well-sorted script of the typed generator (all operator families, all
    mutators) goes through the main-process functions without an
    exception - these are the intermediate inputs ddSMT produces itself."""
    import time
    from harness import c15
    from ddsmt import mutators, smtlib, nodes, nodeio
    from ddsmt.mutator_utils import apply_simp, Simplification
    t0 = time.time()
    _pristine_args()
    muts = c15.all_mutators()
    n = 0
    bad = None
    nums = ((3, 5, 2), (8, 4, 3), (1, 1, 0))
    for fname in fnames:
        for nu in nums:
            if want is not None and want != (fname, list(nu)):
                continue
            ex = c15.typed_script(fname, nu)
            if ex is None:
                continue
            ex = list(nodeio.parse_smtlib(nodeio.write_smtlib_to_str(ex)))
            smtlib.collect_information(ex)
            results = []
            for node in list(nodes.dfs(ex)):
                for cls, m in muts:
                    try:
                        if hasattr(m, 'filter') and not m.filter(node):
                            continue
                        props = []
                        if hasattr(m, 'mutations'):
                            props.extend(m.mutations(node))
                        if hasattr(m, 'global_mutations'):
                            props.extend(m.global_mutations(node, ex))
                        for p in props:
                            r = apply_simp(ex, Simplification(
                                dict(p.substs), list(p.fresh_vars)))
                            if r is not None:
                                results.append((cls, r if isinstance(r, list)
                                                else [r]))
                    except Exception:
                        continue          # isolated per mutator (isolate_*)
            for cls, res in results:
                n += 1
                what = 'auto_detect_theories'
                try:
                    _pristine_args()
                    mutators.auto_detect_theories(res)
                    what = 'collect_information'
                    smtlib.collect_information(res)
                    what = 'count/render'
                    nodes.count_nodes(res)
                    nodes.count_exprs(res)
                    nodeio.write_smtlib_to_str(res)
                except Exception as e:
                    bad = ({'family': fname, 'nums': list(nu)},
                           f'{what} raised {type(e).__name__}: {e} on the '
                           f'input produced by {cls}: '
                           f'{nodeio.write_smtlib_to_str(res)[:300]!r}')
                    break
            if bad:
                break
        if bad:
            break
    return {'status': 'VIOLATED' if bad else 'CONFIRMED',
            'cex': bad[0] if bad else None,
            'exc': {'type': 'Violation', 'msg': bad[1]} if bad else None,
            'paths': n, 'paths_ok': n, 'solver_checks': 0,
            'solver_seconds': 0.0,
            'samples': [{'families': fnames[:3], 'numerals': list(nums)}],
            'wall_s': round(time.time() - t0, 2),
            'note': 'concrete enumeration (auxiliary)'}


# ------------------------------------------------------------------ e2e

E2E_SCRIPTS = {
    # degenerate but legal inputs: whole runs of cli.ddsmt_main on them
    'atoms': 'a b "s t" |q q|',
    'lone': 'x',
    'cmt': '; first\n(check-sat) ; second\n; third\n',
    'nil': '() (()) (check-sat)',
    'empty': '',
    'blank': ' \n\t\n',
    'mixed': 'a (assert (> x 1)) "s" (check-sat)',
    'decl': '(declare-const x)(declare-fun)(define-fun f)(assert)(check-sat)',
}


def e2e_once(vec, script, strategy, V, S):
    """One complete run of cli.ddsmt_main (real files, real argparse
    namespace, all mutators enabled) under the verdict function / schedule
    encoded by ``vec``: no exception may escape."""
    from harness import c01
    from harness import strat_common as SC
    SC.SCRIPTS['_c04_' + script] = E2E_SCRIPTS[script]
    try:
        r, read = c01.one_run(vec, strategy, 1, '_c04_' + script, 'all',
                              'default', 'first', V, S)
    except Exception as e:
        import traceback
        tb = traceback.extract_tb(e.__traceback__)[-1]
        return (f'ddsmt_main on {E2E_SCRIPTS[script]!r} ended with '
                f'{type(e).__name__}: {e} ({tb.filename.split("/")[-1]}:'
                f'{tb.lineno})'), list(range(len(vec)))
    finally:
        SC.SCRIPTS.pop('_c04_' + script, None)
    if r == 'skip':
        return 'skip', read
    if r and r.startswith('ddsmt_main exited'):
        return r, read
    return None, read           # what the run wrote is C01's business


def make_e2e(script, strategy, tier):
    V, S = (6, 2) if tier == 'quick' else (9, 3)

    def run():
        from vlib.engine import explore_choices
        return explore_choices(
            lambda vec: e2e_once(vec, script, strategy, V, S), V + S,
            budget_s=150 if tier == 'quick' else 800)
    return run


def partitions(tier):
    b = bounds(tier)
    bud = 160 if tier == 'quick' else 850
    parts = []
    parts.append({'name': 'declshapes', 'kind': 'native',
                  'run': (lambda: run_declshapes(tier)), 'budget_s': 600})
    from harness import c16
    fams = list(c16.FAMS)
    for k in range(8):
        chunk = fams[k::8]
        parts.append({'name': f'onestep_{k}', 'kind': 'native',
                      'run': (lambda chunk=chunk: run_onestep(chunk, tier)),
                      'budget_s': 600, 'bounds': {'families': len(chunk)}})
    for sc in E2E_SCRIPTS:
        for st in ('ddmin', 'hierarchical', 'hybrid'):
            parts.append({'name': f'e2e_{sc}_{st}', 'kind': 'choices',
                          'run': make_e2e(sc, st, tier), 'budget_s': bud,
                          'bounds': {'script': E2E_SCRIPTS[sc],
                                     'strategy': st, 'mutators': 'all'}})
    for L in range(5, b['text_len'] + 1):
        # long texts: one partition per lexical class of the first character
        for k, cl in enumerate(TEXT_CLASSES):
            parts.append({'name': f'text_len{L}_c{k}',
                          'fn': make_text(L, cl), 'setup': _setup_s,
                          'budget_s': bud,
                          'bounds': {'len': L, 'first_char_class': cl}})
    for L in range(0, min(b['text_len'], 4) + 1):
        parts.append({'name': f'text_len{L}', 'fn': make_text(L),
                      'setup': _setup_s, 'budget_s': bud,
                      'bounds': {'len': L}})
    for k, sh in enumerate(_cmd_shapes(tier)):
        for which in range(0, T.count_leaves(sh)):
            parts.append({'name': f'mainproc_{k}_{which}',
                          'fn': make_mainproc(sh, which),
                          'setup': _setup_t, 'reset': _reset, 'budget_s': bud,
                          'bounds': {'shape': T.shape_str(sh),
                                     'symbolic_leaf': which}})
    for k, sh in enumerate(_term_shapes(tier)):
        for which in (0, 1):
            if which >= T.count_leaves(sh):
                continue
            if which == 1 and (sh[0] == 'L' or T.count_leaves(sh[0]) < 2):
                continue      # second leaf as operator: indexed head (_ op ..)
            parts.append({'name': f'letterm_{k}_{which}',
                          'fn': make_letterm(sh, which), 'setup': _setup_t,
                          'reset': _reset, 'budget_s': bud,
                          'bounds': {'shape': T.shape_str(sh),
                                     'symbolic_leaf': which}})
    parts.append({'name': 'cmdgrid', 'kind': 'native',
                  'run': (lambda: run_cmdgrid(tier)), 'budget_s': 600})
    for st in ('ddmin', 'hierarchical'):
        parts.append({'name': f'isolate_{st}', 'kind': 'native',
                      'run': (lambda st=st: run_isolate(st)),
                      'budget_s': 300})
    parts.append({'name': 'exit', 'fn': make_exit(), 'budget_s': bud})
    parts.append({'name': 'usage', 'fn': make_usage(), 'budget_s': bud})
    return parts


def replay(part, cex):
    import os
    tier = os.environ.get('VERIF_TIER_REPLAY', 'quick')
    try:
        if part.startswith('text'):
            return replay_text(cex)
        if part.startswith('mainproc'):
            _, k, which = part.split('_')
            shape = _cmd_shapes(tier)[int(k)]
            leaves = ['x'] * T.count_leaves(shape)
            leaves[0] = 'assert'
            leaves[int(which)] = cex['lw']
            return mainproc_body(shape, leaves)
        if part.startswith('letterm'):
            _, k, which = part.split('_')
            shape = _term_shapes(tier)[int(k)]
            n = T.count_leaves(shape)
            leaves = ['x'] * n
            leaves[int(which)] = cex['lw']
            if int(which) == 1:
                leaves[0] = '_'
            if n > 2:
                leaves[-1] = '3'
            return letterm_body(shape, leaves)
        if part == 'cmdgrid':
            shape = None
            for sh in T.shapes_up_to(7):
                if T.shape_str(sh) == cex['shape']:
                    shape = sh
            leaves = [cex['cmd']] + ['x'] * (T.count_leaves(shape) - 1)
            return mainproc_body(shape, leaves)
        if part.startswith('isolate'):
            return isolate_body(cex['site'], cex['exc_i'], cex['victim_i'],
                                cex['glob'], part.split('_')[1])
        if part == 'declshapes':
            return declshape_one(cex['command'])
        if part.startswith('onestep'):
            r = run_onestep([cex['family']], 'thorough',
                            (cex['family'], list(cex['nums'])))
            return r['exc']['msg'] if r['exc'] else None
        if part.startswith('e2e_'):
            _, sc, st = part.split('_')
            V, S = (6, 2) if tier == 'quick' else (9, 3)
            r, _ = e2e_once(cex['bits'], sc, st, V, S)
            return None if r in (None, 'skip') else r
        if part == 'exit':
            return exit_body(cex['kind'], cex['rc'])
        if part == 'usage':
            return usage_body(cex)
    except Exception as e:
        return f'{type(e).__name__}: {e}'
    return None
