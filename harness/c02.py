"""C02 - the hierarchical / hybrid result is a fixed point of every enabled
mutator.

Same environment as C05 (real strategy code, oracle verdicts and pool
schedule explored exhaustively by z3 all-SAT over the choice vector).  After
``reduce`` returns, an independent enumerator walks the final input, asks
every mutator of the last pass for its proposals and queries the *same*
oracle: a candidate the strategy has tested keeps its verdict, one it never
tested gets a fresh free verdict - so "skipped for good" shows up as a
satisfiable acceptance.
"""
from harness import strat_common as SC
from harness import c05 as B

ID = 'C02'
LEVEL = 'model_checking'
FUNCTIONS = ['ddsmt.strategy_hierarchical:reduce',
             'ddsmt.strategy_hierarchical:Producer',
             'ddsmt.strategy_hierarchical:Consumer',
             'ddsmt.strategy_hierarchical:get_passes',
             'ddsmt.strategy_ddmin:reduce', 'ddsmt.nodes:bfs']
ASSUMPTIONS = B.ASSUMPTIONS + [
    'the enumerator skips proposals whose generation or application raises '
    '(they cost only that candidate, C04)']
OUTSIDE = B.OUTSIDE
RULE = B.RULE

CONFIGS = [
    ('hierarchical', 'a', 'core'), ('hierarchical', 'b', 'mix'),
    ('hierarchical', 'b', 'elim'), ('hierarchical', 'c', 'erase'),
    ('hierarchical', 'd', 'mix'), ('hybrid', 'a', 'core'),
    ('hybrid', 'c', 'erase'), ('hybrid', 'b', 'elim'),
    ('hierarchical', 'e', 'arith'), ('hierarchical', 'f', 'late'),
    ('hybrid', 'f', 'late'), ('hierarchical', 'f', 'latemix'),
    ('hierarchical', 'n', 'latemix'), ('hierarchical', 'n', 'all'),
    ('hierarchical', 'a', 'all'), ('hybrid', 'h', 'binred'),
]


def bounds(tier):
    return B.bounds(tier)


def partitions(tier):
    import itertools
    parts = []
    b = bounds(tier)
    for (st, sc, ms) in CONFIGS:
        for j in b['J']:
            npin = 0 if j == 1 else (2 if tier == 'quick' else 3)
            if j == 3 and (st, sc, ms) not in CONFIGS[:3]:
                continue      # three workers: three configurations only
            for pin in itertools.product((0, 1), repeat=npin):
                nm = f'{st}_{sc}_{ms}_j{j}' + (
                    '_p' + ''.join(map(str, pin)) if pin else '')
                if sc == 'e' and (not pin or sum(pin) == 0):
                    parts.append({'name': (nm if not pin else nm[:nm.rindex('_p')]) + '_same', 'kind': 'choices',
                                  'run': B.make_run(st, j, sc, ms, tier,
                                                    SC.check_fixed_point, (),
                                                    oracle='same'),
                                  'budget_s': 170 if tier == 'quick' else 850,
                                  'bounds': {'strategy': st, 'script': sc,
                                             'mutators': ms, 'jobs': j,
                                             'oracle': 'consistent-numerals',
                                             'pinned_first_bits': list(pin)}})
                if not pin or sum(pin) == 0:
                    parts.append({'name': (nm if not pin else nm[:nm.rindex('_p')]) + '_req', 'kind': 'choices',
                                  'run': B.make_run(st, j, sc, ms, tier,
                                                    SC.check_fixed_point, (),
                                                    oracle='req'),
                                  'budget_s': 170 if tier == 'quick' else 850,
                                  'bounds': {'strategy': st, 'script': sc,
                                             'mutators': ms, 'jobs': j,
                                             'oracle': 'required-tokens',
                                             'pinned_first_bits': list(pin)}})
                if not pin or sum(pin) == 0:
                    base_nm = nm if not pin else nm[:nm.rindex('_p')]
                    for hp in ([()] if tier == 'quick' or j == 1
                               else [(0,), (1,)]):
                        parts.append({'name': base_nm + (f'_q{hp[0]}' if hp
                                                        else '') + '_hash0',
                                      'kind': 'choices',
                                      'run': B.make_run(st, j, sc, ms, tier,
                                                        SC.check_fixed_point,
                                                        hp, oracle='hash0'),
                                      'budget_s': 170 if tier == 'quick'
                                      else 850,
                                      'bounds': {'strategy': st, 'script': sc,
                                                 'mutators': ms, 'jobs': j,
                                                 'oracle': 'hash-classes',
                                                 'pinned_first_bits':
                                                 list(hp)}})
                if not pin or sum(pin) == 0:
                    base_nm = nm if not pin else nm[:nm.rindex('_p')]
                    for hp in ([()] if tier == 'quick' or j == 1
                               else [(0,), (1,)]):
                        parts.append({'name': base_nm + (f'_q{hp[0]}' if hp
                                                        else '') + '_hash1',
                                      'kind': 'choices',
                                      'run': B.make_run(st, j, sc, ms, tier,
                                                        SC.check_fixed_point,
                                                        hp, oracle='hash1'),
                                      'budget_s': 170 if tier == 'quick'
                                      else 850,
                                      'bounds': {'strategy': st, 'script': sc,
                                                 'mutators': ms, 'jobs': j,
                                                 'oracle': 'hash-classes',
                                                 'pinned_first_bits':
                                                 list(hp)}})
                parts.append({'name': nm, 'kind': 'choices',
                              'run': B.make_run(st, j, sc, ms, tier,
                                                SC.check_fixed_point, pin),
                              'budget_s': 170 if tier == 'quick' else 850,
                              'bounds': {'strategy': st, 'script': sc,
                                         'mutators': ms, 'jobs': j,
                                         'V': b['V'], 'S': b['S'],
                                         'pinned_first_bits': list(pin)}})
    return parts


def replay(part, cex):
    return B.replay(part, cex, SC.check_fixed_point)
