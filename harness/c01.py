"""C01 - the output file reproduces the golden behaviour.

End to end through the real ``cli.ddsmt_main``: real files in a scratch
directory, real parser, theory detection, golden run, strategies (ddmin,
hierarchical, hybrid; -j 1 and -j 2 on the fake pool), candidate files
written by the real compact writer, real ``checker.check`` /
``matches_golden``, real output writers (default, --pretty-print,
--wrap-lines).  Only the command itself is replaced: ``checker.execute``
reads the file it is given with the *reference reader* and answers with the
oracle's verdict for that token sequence.  Verdict functions and pool
schedules are explored exhaustively (z3 all-SAT over the choice vector).

Asserted: every content ever written to the output file - and the file left
at exit - has the token sequence of a file the command was actually run on
and answered like the golden run; the input file is byte-identical
afterwards; nothing else is written outside the temporary directory.
"""
import os
import shutil
import tempfile

from vlib.stubs.strat import Decider, Oracle, HashClassOracle, FakeMP
from vlib.ref import refreader as R
from harness import strat_common as SC

ID = 'C01'
LEVEL = 'model_checking'
FUNCTIONS = ['ddsmt.cli:ddsmt_main', 'ddsmt.checker:check_exprs',
             'ddsmt.checker:check', 'ddsmt.checker:do_golden_runs',
             'ddsmt.checker:matches_golden',
             'ddsmt.nodeio:write_smtlib_for_checking',
             'ddsmt.nodeio:write_smtlib_to_file', 'ddsmt.nodeio:parse_smtlib',
             'ddsmt.tmpfiles:init', 'ddsmt.tmpfiles:get_tmp_filename',
             'ddsmt.strategy_ddmin:reduce', 'ddsmt.strategy_hierarchical:reduce']
ASSUMPTIONS = [
    'checker.execute is replaced by a deterministic command model: it reads '
    'the candidate file, tokenises it with the reference reader and returns '
    'exit code / stdout according to the oracle verdict of that token '
    'sequence',
    'process pool replaced by FakePool (see C05); the first V distinct '
    'candidates / V hash classes have free verdicts',
    'C07 (renderers agree on tokens), C09 (comparison rule) and C05 (chain) '
    'carry the claim beyond the scenario scripts',
]
OUTSIDE = ['a real subprocess and real worker processes',
           'inputs other than the scenario scripts; more than V free verdicts']
RULE = ('one evaluation = one complete run of cli.ddsmt_main under one '
        'verdict function and schedule')


def toks_of_text(text):
    r = R.read(text)
    if isinstance(r, str):
        # unbalanced text (e.g. an input with a stray parenthesis): its flat
        # lexeme sequence
        import re
        return 'RAW: ' + ' '.join(re.findall(
            r'[()]|"(?:[^"]|"")*"|\|[^|]*\||;[^\n]*|[^\s()";|]+', text))
    return ' '.join(R.tokens(R.norm_tree(r)))


GOLDEN = (1, 'bug found\n', 'warn: x\n')
CMP_OPTS = {
    'plain': {},
    'mout': {'match_out': 'bug'},
    'merr': {'match_err': 'warn'},
    'iout': {'ignore_out': True},
    'ierr': {'ignore_err': True, 'match_out': 'found'},
    # with a cross-check command (-c): its own golden run and options
    'cc': {'cc': True},
    'ccio': {'cc': True, 'ignore_output': True},
    'ccmo': {'cc': True, 'match_out_cc': 'sat', 'ignore_err': True},
    'ccig': {'cc': True, 'ignore_output_cc': True, 'match_out': 'bug'},
}
GOLDEN_CC = (0, 'unsat\n', '')


def outcome_cc(toks):
    """Behaviour of the cross-check command: like its golden run, or a
    different stdout / a different exit code - a fixed function of the
    token sequence."""
    import zlib
    k = zlib.crc32(('cc' + toks).encode()) % 6
    if k == 0:
        return (0, 'sat\n', '')
    if k == 1:
        return (3, 'unsat\n', '')
    if k == 2:
        return GOLDEN       # behaves like the golden run of the *other* command
    return GOLDEN_CC


def documented_accept_cc(out, opts):
    from vlib.ref import spec_checker as S_
    ig = opts.get('ignore_output_cc', False)
    return S_.accept(GOLDEN_CC[0], GOLDEN_CC[1], GOLDEN_CC[2], out[0], out[1],
                     out[2], ig, ig, opts.get('match_out_cc'),
                     opts.get('match_err_cc'))


def outcome(verdict, toks):
    """Behaviour of the command model on a candidate: like the golden run if
    the oracle says so, otherwise it differs in exactly one of exit code,
    stdout, stderr (chosen by a hash of the tokens) - so that every stream
    matters for the comparison."""
    import zlib
    if verdict:
        return GOLDEN
    k = zlib.crc32(toks.encode()) % 3
    if k == 0:
        return (0, GOLDEN[1], GOLDEN[2])
    if k == 1:
        return (1, 'ok\n', GOLDEN[2])
    return (1, GOLDEN[1], 'other\n')


def documented_accept(out, opts):
    from vlib.ref import spec_checker as S_
    io = opts.get('ignore_out', False) or opts.get('ignore_output', False)
    ie = opts.get('ignore_err', False) or opts.get('ignore_output', False)
    return S_.accept(GOLDEN[0], GOLDEN[1], GOLDEN[2], out[0], out[1], out[2],
                     io, ie, opts.get('match_out'), opts.get('match_err'))


def one_run(vec, strategy, jobs, script, mutset, fmt, oracle_kind, V, S,
            cmp='plain'):
    import argparse
    import logging
    from ddsmt import (cli, checker, nodeio, options, strategy_ddmin,
                       strategy_hierarchical, progress, tmpfiles)
    reserved = V if oracle_kind.startswith('hash') else 0
    d = Decider(V + S - reserved, replay=list(vec), reserved=reserved)
    work = tempfile.mkdtemp(prefix='verif-c01-')
    saved = {}

    def patch(mod, name, val):
        saved[(mod, name)] = getattr(mod, name)
        setattr(mod, name, val)

    try:
        infile = os.path.join(work, 'input.smt2')
        outfile = os.path.join(work, 'output.smt2')
        cmd = os.path.join(work, 'solver')
        text = SC.SCRIPTS[script]
        with open(infile, 'w') as f:
            f.write(text)
        with open(cmd, 'w') as f:
            f.write('#!/bin/sh\n')
        os.chmod(cmd, 0o755)
        before = open(infile, 'rb').read()
        ns = SC._namespace(strategy, jobs, mutset, outfile,
                           pretty=(fmt == 'pretty'), wrap=(fmt == 'wrap'))
        ns.infile = infile
        ns.cmd = [cmd, '--opt']
        ns.cmd_cc = None
        ns.timeout = None
        ns.parser_test = False
        ns.unchecked = False
        ns.ignore_output = False
        ns.ignore_out = False
        ns.ignore_err = False
        ns.match_out = None
        ns.match_err = None
        ns.ignore_output_cc = False
        ns.match_out_cc = None
        ns.match_err_cc = None
        ns.timeout_cc = None
        use_cc = CMP_OPTS[cmp].get('cc', False)
        for k_, v_ in CMP_OPTS[cmp].items():
            if k_ != 'cc':
                setattr(ns, k_, v_)
        if use_cc:
            # a second executable with the same base name in another directory
            os.mkdir(os.path.join(work, 'ref'))
            cmd_cc = os.path.join(work, 'ref', 'solver')
            with open(cmd_cc, 'w') as f:
                f.write('#!/bin/sh\n# CC\n')
            os.chmod(cmd_cc, 0o755)
            ns.cmd_cc = [cmd_cc, '--ref']
        orig = toks_of_text(text)
        if oracle_kind.startswith('hash'):
            oracle = HashClassOracle(d, V, always_accept=[orig],
                                     salt=int(oracle_kind[4:] or 0))
        else:
            oracle = Oracle(d, V, always_accept=[orig])
        ran = []                    # (tokens, verdict) of every execution

        state = {'main_ok': {}}
        wrong = []

        def execute(xcmd, filename, timeout):
            if not filename.endswith('.smt2'):
                raise AssertionError(f'file name {filename!r}')
            # which program is really started: look into the executable
            role = 'CC' if '# CC' in open(xcmd[0]).read() else 'MAIN'
            t = toks_of_text(open(filename).read())
            if list(xcmd[1:]) == ['--opt']:
                if role != 'MAIN':
                    wrong.append('the command under test was started with '
                                 'the cross-check executable')
                v = oracle.verdict(t)
                o = outcome(v, t)
                ok = documented_accept(o, CMP_OPTS[cmp])
                state['main_ok'][t] = ok
                if not use_cc:
                    ran.append((t, ok))
                return checker.RunInfo(o[0], o[1], o[2], 0.01)
            if list(xcmd[1:]) != ['--ref']:
                raise AssertionError(f'command line {xcmd!r}')
            if role != 'CC':
                wrong.append('the cross-check command was started with the '
                             'executable of the command under test')
            o = outcome_cc(t) if t != orig else GOLDEN_CC
            ran.append((t, state['main_ok'].get(t, False)
                        and documented_accept_cc(o, CMP_OPTS[cmp])))
            return checker.RunInfo(o[0], o[1], o[2], 0.01)

        written = []
        real_write = nodeio.write_smtlib_to_file

        def write(filename, exprs):
            real_write(filename, exprs)
            if filename != outfile:
                raise AssertionError(f'wrote to {filename!r}')
            written.append(toks_of_text(open(outfile).read()))
            if len(written) > 40:
                raise SC.Runaway()

        mp = FakeMP(d, 4)
        patch(checker, 'execute', execute)
        patch(nodeio, 'write_smtlib_to_file', write)
        patch(strategy_ddmin, 'multiprocessing', mp)
        patch(strategy_hierarchical, 'multiprocessing', mp)
        patch(progress, 'start', lambda *a: None)
        patch(progress, 'update', lambda *a: None)
        patch(progress, 'finish', lambda *a: None)
        if not hasattr(logging, 'chat'):
            setattr(options, '__PARSED_ARGS', ns)
            cli.setup_logging()
        patch(cli, 'setup_logging', lambda: None)
        logging.getLogger().setLevel(logging.CRITICAL)
        try:
            cli.ddsmt_main()
        except SC.Runaway:
            return 'skip', d.read
        except SystemExit as e:
            return f'ddsmt_main exited with {e.code!r}', d.read
        if wrong:
            return wrong[0], d.read
        accepted = {t for t, v in ran if v}
        after = open(infile, 'rb').read()
        if after != before:
            return 'the input file was modified', d.read
        for k, w in enumerate(written):
            if w not in accepted:
                return (f'write #{k + 1} of the output file ({fmt} writer) has '
                        f'a token sequence the command never accepted: '
                        f'{w!r}'), d.read
        if written:
            final = toks_of_text(open(outfile).read())
            if final != written[-1] or final not in accepted:
                return f'output file at exit {final!r} not accepted', d.read
        elif os.path.exists(outfile):
            final = toks_of_text(open(outfile).read())
            if final not in accepted:
                return f'output file at exit {final!r} not accepted', d.read
        extra = sorted(set(os.listdir(work))
                       - {'input.smt2', 'output.smt2', 'solver', 'ref'})
        if extra:
            return f'unexpected files written: {extra}', d.read
        return None, d.read
    finally:
        for (mod, name), val in saved.items():
            setattr(mod, name, val)
        setattr(strategy_ddmin, '__abort_flag', None)
        try:
            t = getattr(tmpfiles, '__TMPDIR')
            if t is not None:
                t.cleanup()
        except Exception:
            pass
        shutil.rmtree(work, ignore_errors=True)


def _candidate_file():
    """The file checker.check_exprs really writes the candidate to and
    hands to the command in this process/thread."""
    from ddsmt import checker
    from ddsmt.nodes import Node
    seen = []
    real = checker.check
    checker.check = lambda filename: seen.append(filename) or True
    try:
        checker.check_exprs([Node('check-sat')])
    finally:
        checker.check = real
    import os
    if not seen or not os.path.exists(seen[0]):
        return 'no candidate file written'
    return seen[0]


def _child_tmpname(k):
    import threading
    names = [_candidate_file()]
    box = []
    t = threading.Thread(target=lambda: box.append(_candidate_file()))
    t.start()
    t.join()
    import os
    return [os.getpid()] + names + box


def run_tmpnames():
    """Auxiliary (real fork pool): the candidate file is private to each
    process and thread - the main process, which checks sequentially before
    the pool is forked, and every worker use different files."""
    import multiprocessing
    import time
    from ddsmt import tmpfiles, options
    t0 = time.time()
    SC._namespace('ddmin', 2, 'core', 'out.smt2')
    options.args().infile = 'in.smt2'
    tmpfiles.init()
    main_name = _candidate_file()     # a sequential check before the fork
    if main_name != tmpfiles.get_tmp_filename():
        main_name = (f'check_exprs wrote {main_name}, get_tmp_filename() is '
                     f'{tmpfiles.get_tmp_filename()}')
    ctx = multiprocessing.get_context('fork')
    with ctx.Pool(3) as pool:
        res = pool.map(_child_tmpname, range(6), chunksize=1)
    names = [main_name] + [n for r in res for n in r[1:]]
    # names used by each process (a later thread of one process may reuse the
    # identifier of a finished one - that is the same, sequential, user)
    per_proc = {}
    bad = None
    for pid, mainthread, other in res:
        per_proc.setdefault(pid, set()).update((mainthread, other))
        if mainthread == other:
            bad = ('two threads of one process use the same candidate file: '
                   f'{mainthread}')
    owners = {}
    for pid, ns in list(per_proc.items()) + [('main', {main_name})]:
        for n in ns:
            if n in owners and bad is None:
                bad = ('two processes of one ddSMT run use the same '
                       f'candidate file: {n} ({owners[n]} and {pid})')
            owners[n] = pid
    if not all(n.endswith('.smt2') for n in names):
        bad = 'candidate file without the extension of the input file'
    try:
        getattr(tmpfiles, '__TMPDIR').cleanup()
    except Exception:
        pass
    return {'status': 'VIOLATED' if bad else 'CONFIRMED',
            'cex': {'tmpnames': True} if bad else None,
            'exc': {'type': 'Violation', 'msg': bad} if bad else None,
            'paths': len(names), 'paths_ok': len(names),
            'samples': [{'names': sorted(set(names))[:3]}],
            'solver_checks': 0, 'solver_seconds': 0.0,
            'wall_s': round(time.time() - t0, 2),
            'note': 'real fork pool, concrete (auxiliary)'}


CONFIGS = [
    # strategy, jobs, script, mutset, format, oracle, comparison options
    ('hybrid', 1, 'a', 'core', 'default', 'first', 'plain'),
    ('hybrid', 1, 'a', 'core', 'pretty', 'hash0', 'mout'),
    ('hybrid', 2, 'c', 'erase', 'wrap', 'hash0', 'merr'),
    ('ddmin', 1, 'b', 'mix', 'pretty', 'hash1', 'iout'),
    ('ddmin', 2, 'c', 'erase', 'default', 'first', 'mout'),
    ('hierarchical', 1, 'b', 'mix', 'wrap', 'hash0', 'ierr'),
    ('hierarchical', 2, 'a', 'core', 'default', 'hash1', 'merr'),
    ('hierarchical', 1, 'd', 'mix', 'pretty', 'first', 'mout'),
    ('hierarchical', 1, 'a', 'core', 'default', 'hash0', 'iout'),
    ('ddmin', 1, 'a', 'core', 'wrap', 'hash0', 'ierr'),
    ('hybrid', 1, 'a', 'core', 'default', 'hash0', 'cc'),
    ('hierarchical', 1, 'a', 'core', 'default', 'hash1', 'ccio'),
    ('ddmin', 2, 'c', 'erase', 'pretty', 'hash0', 'ccmo'),
    ('hierarchical', 2, 'b', 'mix', 'default', 'hash0', 'ccig'),
    ('ddmin', 1, 'a', 'core', 'default', 'first', 'ccio'),
    # an input with a stray ')': its re-rendering is not the input
    ('hierarchical', 1, 'p', 'core', 'default', 'first', 'plain'),
    ('ddmin', 1, 'p', 'erase', 'default', 'hash0', 'plain'),
]


def bounds(tier):
    return {'V': 6 if tier == 'quick' else 8, 'S': 4 if tier == 'quick' else 6}


def make_run(cfg, tier, pin=()):
    st, j, sc, ms, fmt, oracle, cmp = cfg
    b = bounds(tier)
    S = b['S'] if j > 1 else 0

    def once(vec):
        return one_run(vec, st, j, sc, ms, fmt, oracle, b['V'], S, cmp)

    def run():
        from vlib.engine import explore_choices
        return explore_choices(once, b['V'] + S,
                               budget_s=170 if tier == 'quick' else 850,
                               pin=pin)
    return run


def partitions(tier):
    parts = []
    parts.append({'name': 'tmpnames', 'kind': 'native', 'run': run_tmpnames,
                  'budget_s': 120})
    import itertools
    for cfg in CONFIGS:
        st, j, sc, ms, fmt, oracle, cmp = cfg
        npin = 3 if (tier != 'quick' and j > 1) else 0
        for pin in itertools.product((0, 1), repeat=npin):
          sfx = ('_p' + ''.join(map(str, pin))) if pin else ''
          parts.append({'name': f'{st}_j{j}_{sc}_{ms}_{fmt}_{oracle}_{cmp}{sfx}',
                      'kind': 'choices', 'run': make_run(cfg, tier, pin),
                      'budget_s': 170 if tier == 'quick' else 850,
                      'bounds': {'strategy': st, 'jobs': j, 'script': sc,
                                 'mutators': ms, 'format': fmt,
                                 'oracle': oracle, 'comparison': cmp,
                                 **bounds(tier)}})
    return parts


def replay(part, cex):
    import os as _os
    tier = _os.environ.get('VERIF_TIER_REPLAY', 'quick')
    if part == 'tmpnames':
        r = run_tmpnames()
        return r['exc']['msg'] if r['exc'] else None
    st, j, sc, ms, fmt, oracle, cmp = part.split('_')[:7]
    b = bounds(tier)
    try:
        r, _ = one_run(cex['bits'], st, int(j[1:]), sc, ms, fmt, oracle,
                       b['V'], b['S'] if int(j[1:]) > 1 else 0, cmp)
    except Exception as e:
        return f'{type(e).__name__}: {e}'
    return None if r in (None, 'skip') else r
