"""C15 - every proposed simplification is applicable and lexically closed.

  corpus   (auxiliary, concrete) every node x every mutator x every proposal
           on a corpus of well-sorted scripts over all theories
  strlit   E1: StringSimplifyConstant on a string literal with *symbolic
           content* (doubled quotes, backslashes, any code point)
  names    E1: mutators that build or shorten symbols (IntroduceFreshVariable,
           BVReduceBW, StringContainsToConcat, SimplifySymbolNames,
           SimplifyQuotedSymbols, EliminateVariable, ReplaceByVariable) on
           scripts whose declared *symbol names are symbolic strings*
  decimal  E1: ArithmeticSimplifyConstant on decimals with symbolic digits

For each proposal: keys designate nodes of the input; apply_simp does not
raise; the result renders; reading the rendering back with the reference
reader gives exactly the tree in memory (every leaf is one token); fresh
declarations name symbols not declared in the input and precede their first
use.
"""
from vlib.engine import assume, Violation
from vlib.ref import refreader as R

ID = 'C15'
LEVEL = 'model_checking'
FUNCTIONS = ['ddsmt.mutator_utils:apply_simp', 'ddsmt.smtlib:introduce_variables',
             'ddsmt.mutators_strings:StringSimplifyConstant',
             'ddsmt.mutators_strings:StringContainsToConcat',
             'ddsmt.mutators_smtlib:IntroduceFreshVariable',
             'ddsmt.mutators_smtlib:SimplifySymbolNames',
             'ddsmt.mutators_smtlib:SimplifyQuotedSymbols',
             'ddsmt.mutators_smtlib:EliminateVariable',
             'ddsmt.mutators_bv:BVReduceBW',
             'ddsmt.mutators_core:ReplaceByVariable',
             'ddsmt.mutators_arithmetic:ArithmeticSimplifyConstant',
             'ddsmt.mutators:get_all_mutators']
ASSUMPTIONS = [
    'a mutator that raises in filter()/mutations() proposes nothing (C04 '
    'bounds the damage); such events are counted in evidence',
    'hash shim mode T; symbolic strings are literal contents, declared symbol '
    'names and digits',
    'the corpus part is concrete enumeration (auxiliary)',
]
OUTSIDE = ['symbol names and decimals are not solver-quantified (dict keys realise symbolic strings; float() realises): covered by corpus scripts only', 'inputs outside the corpus for mutators whose proposals do not '
           'depend on the symbolic parts', 'literal contents longer than the '
           'bound']

CORPUS = [
    # core / arithmetic
    '(set-logic QF_LIA)(set-info :status sat)(declare-const x Int)'
    '(declare-const y Int)(declare-fun f (Int Int) Int)'
    '(define-fun g ((a Int) (b Int)) Int (+ a (* 2 b)))'
    '(assert (= x 0))(assert (not (< (f x 3) (g y 10))))'
    '(assert (=> (> x 1) (<= x y 7)))(assert (and (or (= x y) false) true))'
    '(assert (distinct x y 5))(check-sat)(get-model)',
    '(set-logic QF_LRA)(declare-const r Real)(declare-const s Real)'
    '(assert (< (/ r 2.5) (+ s 1.25 (- 3.0))))(assert (= (* r r) 10.5))'
    '(assert (not (>= r s)))(check-sat)',
    # bit-vectors
    '(set-logic QF_BV)(declare-const a (_ BitVec 8))(declare-fun b () (_ BitVec 8))'
    '(declare-const _a (_ BitVec 4))'
    '(assert (= ((_ extract 3 0) ((_ zero_extend 4) a)) #xA))'
    '(assert (bvult (concat #b0000 ((_ extract 7 4) a)) (bvnot (bvnot b))))'
    '(assert (= (bvcomp a b) #b1))(assert (= #b1 (bvor (bvcomp a b) #b0)))'
    '(assert (= ((_ sign_extend 2) #b101) ((_ zero_extend 1) ((_ zero_extend 1) #b101))))'
    '(assert (= (ite (= a b) #b1 #b0) (_ bv1 1)))'
    '(assert (= (bvnand a a) (bvneg (bvneg (_ bv200 8)))))'
    '(assert (bvslt ((_ zero_extend 2) a) ((_ zero_extend 4) _a)))(check-sat)',
    '(declare-const __w (_ BitVec 2))'
    '(define-fun _w () (_ BitVec 4) ((_ zero_extend 2) __w))'
    '(define-fun w () (_ BitVec 8) ((_ zero_extend 4) _w))'
    '(assert (= w #x03))(check-sat)',
    # booleans / quantifiers / let
    '(declare-fun P (Int) Bool)(declare-const p Bool)(declare-const q Bool)'
    '(assert (not (exists ((k Int) (m Int)) (and (P k) (P m)))))'
    '(assert (not (forall ((k2 Int)) (not (P k2)))))'
    '(assert (xor p q))(assert (xor p true q false))(assert (= false p))'
    '(assert (not (not (=> p q p))))(assert (not (or p (and q p))))'
    '(assert (let ((u (P 1)) (v (or p q))) (and u v (let ((z2 u)) z2))))'
    '(assert (! (or p q) :named lbl))(check-sat-assuming (p (not q)))',
    # strings
    '(set-logic QF_SLIA)(declare-const s String)(declare-const t String)'
    '(assert (str.contains s "ab c"))(assert (str.contains (str.++ s t) "x"))'
    '(assert (= (str.indexof s t 0) (str.len (str.replace_all s "a" "b\\u{41}"))))'
    '(assert (= t "he said ""hi"" \\x41 end"))'
    '(assert (= (seq.nth (seq.unit 5) 0) 5))(check-sat)',
    # datatypes
    '(declare-datatype Color ((red) (green) (rgb (r Int) (gg Int))))'
    '(declare-datatypes ((L 0) (T 0)) (((nil) (cons (hd Int) (tl L))) ((leaf) (node (l T) (rr T)))))'
    '(declare-const c Color)(declare-const li L)'
    '(assert (= (r (rgb 1 2)) 1))(assert (= (hd (cons 1 li)) (gg c)))'
    '(assert (= c red))(check-sat)',
    # floating point / arrays / recursive functions / quoted symbols
    '(declare-const ff (_ FloatingPoint 8 24))(declare-const dd (_ FloatingPoint 11 53))'
    '(declare-const rm RoundingMode)(declare-const h Float16)'
    '(assert (fp.lt (fp.add rm ff ff) (fp #b0 #b10000000 #b00000000000000000000000)))'
    '(assert (fp.isNaN dd))(check-sat)',
    '(declare-const m (Array Int Int))(declare-const |quoted sym| Int)(declare-const |simple| Int)'
    '(define-funs-rec ((ev ((n Int)) Bool) (od ((n2 Int)) Bool)) ((ite (= n 0) true (od (- n 1))) (ite (= n2 0) false (ev (- n2 1)))))'
    '(assert (= (select (store m 1 |quoted sym|) |simple|) 2))'
    '(assert (ev 4)); a comment\n(check-sat)',
    # symbols that collide with the names mutators derive
    '(declare-const v (_ BitVec 8))(declare-const _v (_ BitVec 8))'
    '(declare-const s String)(declare-const s_prefix String)'
    '(declare-const |q s| String)(declare-const t_suffix String)(declare-const t String)'
    '(assert (str.contains s t))(assert (str.contains t "a"))'
    '(assert (str.contains |q s| s_prefix))(assert (str.contains (str.++ s t) t_suffix))'
    '(assert (= (bvadd v _v) v))(check-sat)',
    # '_' + name taken by a function with arguments
    '(declare-const w (_ BitVec 8))(declare-fun _w ((_ BitVec 8)) (_ BitVec 8))'
    '(assert (= (_w w) w))(check-sat)',
    # set-info in the middle of the script (incremental benchmarks)
    '(set-logic QF_LIA)(set-info :source x)(declare-const x Int)'
    '(assert (> (+ x 1) 2))(check-sat)(set-info :status unsat)'
    '(assert (< (* x 2) 3))(check-sat)',
    # quoted symbols in every role (variables of all sorts, functions,
    # parameters, binders, datatypes); names that clash only modulo quoting
    '(declare-const |a b| (_ BitVec 8))(declare-const |_c d| (_ BitVec 8))'
    '(declare-const |c d| (_ BitVec 8))(declare-const |s t| String)'
    '(declare-const u String)(declare-const |x y| Int)(declare-const |r| Real)'
    '(declare-fun |f g| (Int) Int)(define-fun |h h| ((|p q| Int)) Int '
    '(+ |p q| 1))(define-fun |k| () Int 3)'
    '(declare-datatype |D t| ((|c 1|) (|c 2| (|s 1| Int))))'
    '(declare-const |d v| |D t|)(assert (= (bvadd |a b| |c d|) |_c d|))'
    '(assert (str.contains u |s t|))(assert (str.contains |s t| "a b"))'
    '(assert (> (|f g| (|h h| |x y|)) |k|))'
    '(assert (let ((|l v| (+ |x y| 1))) (> |l v| 2)))'
    '(assert (exists ((|q v| Int)) (> |q v| |x y|)))'
    '(assert (= (|s 1| (|c 2| 4)) 4))(assert (= |d v| |c 1|))'
    '(assert (< |r| 2.5))(check-sat)',
    '(declare-const |v| (_ BitVec 8))(declare-const _v (_ BitVec 8))'
    '(declare-const w (_ BitVec 8))(declare-const |_w| (_ BitVec 8))'
    '(declare-const s String)(declare-const |s_prefix| String)'
    '(declare-const t String)(declare-const |t_suffix| String)'
    '(assert (= (bvadd |v| _v) (bvadd w |_w|)))'
    '(assert (str.contains s |s_prefix|))(assert (str.contains t |t_suffix|))'
    '(check-sat)',
    # a top-level node with many children (binary reduction)
    '(declare-const z Int)(assert (and (> z 0) (> z 1) (> z 2) (> z 3) (> z 4)'
    ' (> z 5) (> z 6) (> z 7) (> z 8) (> z 9)))'
    '(assert (+ 1 2 3 4 5 6 7 8 9 z))(check-sat)',
]


def _to_list(node):
    if node.is_leaf():
        return node.data
    return [_to_list(c) for c in node.data]


def all_mutators(names=None):
    from ddsmt import mutators
    out = []
    for g, (mod, reg) in mutators.get_all_mutators().items():
        for cls in reg:
            if names is None or cls in names:
                out.append((cls, getattr(mod, cls)()))
    return out


def _bare(name):
    """|abc| and abc are the same symbol (SMT-LIB 2.6, 3.1)."""
    if len(name) >= 2 and name[0] == '|' and name[-1] == '|':
        return name[1:-1]
    return name


def declared_symbols(exprs):
    out = set()
    for e in exprs:
        if e.has_ident() and len(e) > 1 and e[1].is_leaf() and \
                e.get_ident() in ('declare-const', 'declare-fun', 'define-fun',
                                  'declare-sort', 'define-sort',
                                  'declare-datatype'):
            out.add(_bare(e[1].data))
    return out


def check_proposal(exprs, simp, what, read=None):
    """Returns a description of the defect or None."""
    from ddsmt import nodes, nodeio
    from ddsmt.nodes import Node
    from ddsmt.mutator_utils import apply_simp, Simplification
    if not isinstance(simp, Simplification):
        return f'{what}: proposal is not a Simplification: {simp!r}'
    ids = {n.id for n in nodes.dfs(exprs)}
    for key, val in simp.substs.items():
        if isinstance(key, int):
            if key not in ids:
                return f'{what}: identity key {key} is not a node of the input'
        elif isinstance(key, Node):
            if not any(n == key for n in nodes.dfs(exprs)):
                return (f'{what}: structural key {key.__str__()} does not '
                        f'occur in the input')
        else:
            return f'{what}: key of unexpected type {type(key).__name__}'
        if val is not None and not isinstance(val, Node):
            return f'{what}: replacement is not a Node: {val!r}'
    declared = declared_symbols(exprs)
    for v in simp.fresh_vars:
        if not (isinstance(v, Node) and v.has_ident() and len(v) > 1
                and v[1].is_leaf()):
            return f'{what}: malformed declaration {v!r}'
        if _bare(v[1].data) in declared:
            return (f'{what}: declares {v[1].data!r}, which the input already '
                    f'declares')
    try:
        res = apply_simp(exprs, Simplification(dict(simp.substs),
                                               list(simp.fresh_vars)))
    except Exception as e:
        return f'{what}: apply_simp raised {type(e).__name__}: {e}'
    if res is None:
        return None
    if isinstance(res, Node):
        res = [res]
    try:
        text = nodeio.write_smtlib_to_str(res)
    except Exception as e:
        return f'{what}: rendering raised {type(e).__name__}: {e}'
    back = (read or R.read)(text)
    mem = R.norm_tree([_to_list(e) for e in res])
    if isinstance(back, str):
        return (f'{what}: the written text cannot be read back ({back}): '
                f'{text!r}')
    if R.norm_tree(back) != mem:
        return (f'{what}: the file written differs from the tree in memory: '
                f'{text!r} reads as {R.norm_tree(back)!r}')
    for v in simp.fresh_vars:
        name = v[1].data
        di = [i for i, e in enumerate(res) if e is v or e == v]
        use = [i for i, e in enumerate(res)
               if not (e is v or e == v)
               and any(n.is_leaf() and n.data == name for n in nodes.dfs(e))]
        if not di:
            return f'{what}: declaration of {name} was not inserted'
        if use and min(use) < di[0]:
            return f'{what}: {name} is used before its declaration'
    return None


def run_mutators(exprs, muts, stats=None, only_nodes=None, read=None):
    """All proposals of the given mutators on all nodes; first defect."""
    from ddsmt import nodes, smtlib
    smtlib.collect_information(exprs)
    for node in (only_nodes or list(nodes.dfs(exprs))):
        for cls, m in muts:
            try:
                if hasattr(m, 'filter') and not m.filter(node):
                    continue
                props = []
                if hasattr(m, 'mutations'):
                    props.extend(('mutations', p) for p in m.mutations(node))
                if hasattr(m, 'global_mutations'):
                    props.extend(('global_mutations', p)
                                 for p in m.global_mutations(node, exprs))
            except Exception as e:
                if stats is not None:
                    stats['mutator_errors'].append(
                        f'{cls} on {node.__str__()[:60]}: '
                        f'{type(e).__name__}')
                continue
            for kind, p in props:
                if stats is not None:
                    stats['proposals'] += 1
                r = check_proposal(exprs, p,
                                   f'{cls}.{kind}({node.__str__()[:80]})',
                                   read)
                if r:
                    return r
    return None


# ---------------------------------------------------------------- corpus

def run_corpus(k):
    import time
    from ddsmt import nodeio
    t0 = time.time()
    exprs = list(nodeio.parse_smtlib(CORPUS[k]))
    stats = {'proposals': 0, 'mutator_errors': []}
    r = run_mutators(exprs, all_mutators(), stats)
    errs = sorted(set(stats['mutator_errors']))
    return {'status': 'VIOLATED' if r else 'CONFIRMED',
            'cex': {'script': k} if r else None,
            'exc': {'type': 'Violation', 'msg': r} if r else None,
            'paths': stats['proposals'], 'paths_ok': stats['proposals'],
            'samples': [{'script': CORPUS[k][:200]}],
            'solver_checks': 0, 'solver_seconds': 0.0,
            'queries': {'mutator_errors': errs[:10],
                        'n_mutator_errors': len(errs)},
            'wall_s': round(time.time() - t0, 2),
            'note': 'concrete enumeration (auxiliary)'}


# ----------------------------------------------------------------- typed

TYPED_NUMS = ((3, 5, 2), (8, 4, 3), (1, 1, 0))


def typed_script(fname, nums):
    """The well-sorted script of one instance of C16's typed generator."""
    from harness import c16
    from ddsmt.nodes import Node
    fam, sel = c16.FAMS[fname]
    inst = c16.Inst()
    try:
        fam(inst, *nums, sel)
    except Exception:
        return None
    exprs = [c16._mk(Node, d) for d in inst.decls]
    for t, s in inst.closed:
        tn = c16._mk(Node, t)
        if isinstance(tn.data, str):
            continue
        exprs.append(Node('assert', tn) if s == 'Bool'
                     else Node('assert', Node('=', tn, tn)))
    return exprs


def run_typed(fnames, tier, want=None):
    import time
    from ddsmt import nodeio
    t0 = time.time()
    stats = {'proposals': 0, 'mutator_errors': []}
    muts = all_mutators()
    bad = None
    nscripts = 0
    nums = TYPED_NUMS
    for fname in fnames:
        for nu in nums:
            if want is not None and want != (fname, list(nu)):
                continue
            exprs = typed_script(fname, nu)
            if exprs is None:
                continue
            # through the real parser, as ddSMT sees it
            exprs = list(nodeio.parse_smtlib(nodeio.write_smtlib_to_str(exprs)))
            nscripts += 1
            r = run_mutators(exprs, muts, stats)
            if r:
                bad = {'family': fname, 'nums': list(nu), 'msg': r}
                break
        if bad:
            break
    errs = sorted(set(stats['mutator_errors']))
    return {'status': 'VIOLATED' if bad else 'CONFIRMED',
            'cex': {'family': bad['family'], 'nums': bad['nums']} if bad
            else None,
            'exc': {'type': 'Violation', 'msg': bad['msg']} if bad else None,
            'paths': stats['proposals'], 'paths_ok': stats['proposals'],
            'samples': [{'families': fnames[:3], 'numerals': list(nums)}],
            'solver_checks': 0, 'solver_seconds': 0.0,
            'queries': {'scripts': nscripts, 'mutator_errors': errs[:10],
                        'n_mutator_errors': len(errs)},
            'wall_s': round(time.time() - t0, 2),
            'note': 'concrete enumeration over the scripts of the typed '
                    'generator of C16 (auxiliary)'}


# ---------------------------------------------------------------- strlit

def _literal(chars):
    """A string literal whose content consists of the given characters (a
    quote is written doubled)."""
    out = '"'
    for c in chars:
        if c == '"':
            out = out + '""'
        else:
            out = out + c
    return out + '"'


def strlit_body(chars, read=None):
    from ddsmt.nodes import Node
    lit = _literal(chars)
    exprs = [Node('declare-const', 's', 'String'),
             Node('assert', Node('=', 's', lit))]
    target = exprs[1][1][2]
    return run_mutators(exprs, all_mutators(['StringSimplifyConstant']),
                        only_nodes=[target], read=read)


def _cls(c, k):
    if k == 0:
        return c == '"'
    if k == 1:
        return c == chr(92)
    return c != '"' and c != chr(92)


def make_strlit(n, pins=()):
    def h(c0: str, c1: str, c2: str, c3: str, c4: str):
        cs = [c0, c1, c2, c3, c4]
        for c in cs[:n]:
            assume(len(c) == 1)
        for c, k in zip(cs, pins):
            assume(_cls(c, k))
        for c in cs[n:]:
            assume(len(c) == 0)
        r = strlit_body(cs[:n], read=_read_pieces)
        if r:
            raise Violation(r)
    return h


def _read_pieces(text):
    return R.read(text)


# ----------------------------------------------------------------- names

NAME_MUTS = ['IntroduceFreshVariable', 'BVReduceBW', 'StringContainsToConcat',
             'SimplifySymbolNames', 'SimplifyQuotedSymbols',
             'EliminateVariable', 'ReplaceByVariable', 'InlineDefinedFuns']


def _is_symbol(t):
    r = R.read(t)
    return (not isinstance(r, str)) and len(r) == 1 and r[0] == t \
        and t[0] != ';' and t[0] != '"'


def names_body(variant, n1, n2):
    from ddsmt.nodes import Node
    bv = ('_', 'BitVec', '8')
    if variant == 0:     # bit-vector reduction: '_' + name may exist
        exprs = [Node('declare-const', n1, bv), Node('declare-const', n2, bv),
                 Node('assert', ('=', ('bvadd', n1, n2), n1))]
    elif variant == 1:   # str.contains: <name>_prefix / _suffix may exist
        exprs = [Node('declare-const', n1, 'String'),
                 Node('declare-const', n2, 'String'),
                 Node('assert', ('str.contains', n1, '"a"')),
                 Node('assert', ('=', n2, n1))]
    elif variant == 2:   # fresh variables / renaming / variable elimination
        exprs = [Node('declare-const', n1, 'Int'),
                 Node('declare-fun', n2, (), 'Int'),
                 Node('define-fun', 'dd', (('pp', 'Int'),), 'Int',
                      ('+', 'pp', n1)),
                 Node('assert', ('=', n1, ('+', n2, ('dd', n2)))),
                 Node('assert', ('>', ('*', n1, n2), n2))]
    else:                # str.contains with a non-leaf first argument
        exprs = [Node('declare-const', n1, 'String'),
                 Node('declare-const', n2, 'String'),
                 Node('assert', ('str.contains', ('str.++', n1, n2), n2))]
    return run_mutators(exprs, all_mutators(NAME_MUTS))


def make_names(variant, quoted):
    def h(a: str, b: str):
        assume(1 <= len(a) <= 3 and 1 <= len(b) <= 3)
        if quoted:
            assume('|' not in a)
            n1 = '|' + a + '|'
        else:
            n1 = a
        n2 = b
        assume(_is_symbol(n1) and _is_symbol(n2))
        assume(n1 != n2)
        for kw in ('dd', 'pp', 'true', 'false'):
            assume(n1 != kw and n2 != kw)
        r = names_body(variant, n1, n2)
        if r:
            raise Violation(r)
    return h


# --------------------------------------------------------------- decimal

def decimal_body(i, f):
    from ddsmt.nodes import Node
    lit = i + '.' + f
    exprs = [Node('declare-const', 'r', 'Real'),
             Node('assert', ('<', 'r', lit))]
    return run_mutators(exprs, all_mutators(['ArithmeticSimplifyConstant']),
                        only_nodes=[exprs[1][1][2]])


def make_decimal():
    def h(i: str, f: str):
        assume(1 <= len(i) <= 2 and 1 <= len(f) <= 2)
        for ch in (i[0], i[-1], f[0], f[-1]):
            assume('0' <= ch <= '9')
        r = decimal_body(i, f)
        if r:
            raise Violation(r)
    return h


# --------------------------------------------------------------- e2names

E2LEAVES = {
    # mutator: (module, methods, language of the token, language the new
    # leaf must be in)
    'SimplifyQuotedSymbols': ('mutators_smtlib',
                              ('mutations', 'global_mutations'), 'symbol',
                              'leaf'),
}


def run_e2leaves(cls):
    """E2: leaves a mutator builds from the text of a token (translated
    from the current source, incl. the regular expression of its filter) are
    single tokens, for token texts of any length."""
    import importlib
    import time
    import z3
    from vlib import py2smt_str as T
    from ddsmt import smtlib
    t0 = time.time()
    modname, methods, lang, target = E2LEAVES[cls]
    mod = importlib.import_module('ddsmt.' + modname)
    M = getattr(mod, cls)
    L = T.languages()
    name = z3.String('name')
    env = {'node': T.Leaf(name), 'input_': T.Opaque('input'),
           'self': T.Opaque('self')}
    base = {'status': 'UNKNOWN', 'cex': None, 'paths': 0, 'paths_ok': 0,
            'samples': [], 'solver_checks': 0, 'solver_seconds': 0.0}
    recs = []
    try:
        for meth in methods:
            recs += T.leaf_replacements(getattr(M, meth), smtlib, env,
                                        M.filter)
    except T.Unsupported as e:
        return dict(base, engine_error=f'outside the translatable subset: {e}',
                    wall_s=round(time.time() - t0, 2))
    if not recs:
        return dict(base, status='VACUOUS',
                    engine_error='no replacement leaf found in the source',
                    wall_s=round(time.time() - t0, 2))
    nq = reach = 0
    stime = 0.0
    bad = None
    unknown = []
    samples = []
    for pc, term in recs:
        for label, member in T.cases(name, lang):
            for what, goal in (('reach', z3.BoolVal(True)),
                               ('token', z3.Not(z3.InRe(term, L[target])))):
                sol = z3.Solver()
                sol.set('timeout', 60000)
                sol.add(member, pc, goal)
                tq = time.time()
                r = str(sol.check())
                stime += time.time() - tq
                nq += 1
                if what == 'reach':
                    if r == 'sat':
                        reach += 1
                        m = sol.model()
                        if len(samples) < 3:
                            samples.append({
                                'token': T.model_string(m, name),
                                'new_leaf': T.model_string(m, term)})
                    elif r != 'unsat':
                        unknown.append(f'reachability: {r}')
                elif r == 'sat' and bad is None:
                    m = sol.model()
                    tok = T.model_string(m, name)
                    bad = ({'token': tok, 'mutator': cls},
                           f'{cls}: the token {tok!r} is replaced by the leaf '
                           f'{T.model_string(m, term)!r}, which is not '
                           f'a single token')
                elif r not in ('sat', 'unsat'):
                    unknown.append(f'token query: {r}')
    status = 'VIOLATED' if bad else ('UNKNOWN' if unknown else
                                     ('CONFIRMED' if reach else 'VACUOUS'))
    return {'status': status, 'cex': bad[0] if bad else None,
            'exc': {'type': 'Violation', 'msg': bad[1]} if bad else None,
            'paths': len(recs), 'paths_ok': len(recs) - len(unknown),
            'samples': samples, 'solver_checks': nq,
            'solver_seconds': round(stime, 2),
            'queries': {'leaf_constructions_in_source': len(recs),
                        'reachable': reach, 'undecided': unknown[:3]},
            'engine_error': '; '.join(unknown[:2]) or None,
            'wall_s': round(time.time() - t0, 2),
            'note': 'token texts of any length (characters of the BMP); the '
                    'filter, incl. its regular expression, is part of the '
                    'translation'}


def e2leaves_native(cls, name):
    from ddsmt import nodeio
    exprs = list(nodeio.parse_smtlib(
        f'(declare-const {name} Int)(assert (> {name} 0))'))
    return run_mutators(exprs, all_mutators([cls]))


E2NAMES = {
    # mutator: (module, class, language of the token the name is built from)
    'BVReduceBW': ('mutators_bv', 'symbol'),
    # first operand of str.contains in a well-sorted term: a symbol or a
    # string literal
    'StringContainsToConcat': ('mutators_strings', 'symstr'),
    'IntroduceFreshVariable': ('mutators_smtlib', 'symbol'),
}


def _e2_script(cls, name):
    if cls == 'BVReduceBW':
        return (f'(declare-const {name} (_ BitVec 8))'
                f'(assert (= {name} #x01))')
    if cls == 'StringContainsToConcat':
        decl = '' if name[:1] in '"#:0123456789' else \
            f'(declare-const {name} String)'
        return (f'{decl}(declare-const t String)'
                f'(assert (str.contains {name} t))')
    return (f'(declare-const {name} Int)(assert (> (+ {name} 1) 2))')


def e2names_native(cls, name):
    """The real mutator on a script in which the token ``name`` stands where
    the mutator takes its name from."""
    from ddsmt import nodeio
    exprs = list(nodeio.parse_smtlib(_e2_script(cls, name)))
    return run_mutators(exprs, all_mutators([cls]))


def run_e2names(cls):
    """E2: the name construction of the mutator, translated from its current
    source to z3 strings (vlib/py2smt_str.py); for every token text of any
    length the declared name must be a symbol."""
    import importlib
    import time
    import z3
    from vlib import py2smt_str as T
    from ddsmt import smtlib
    t0 = time.time()
    modname, lang = E2NAMES[cls]
    mod = importlib.import_module('ddsmt.' + modname)
    L = T.languages()
    name = z3.String('name')
    digits = z3.String('node_id')
    env = {'node': T.Cmd([T.Opaque('head'), T.Leaf(name), T.Opaque('c2'),
                          T.Opaque('c3')]),
           'input_': T.Opaque('input'), 'self': T.Opaque('self'),
           '__node_id__': T.NodeId(digits)}
    base = {'status': 'UNKNOWN', 'cex': None, 'paths': 0, 'paths_ok': 0,
            'samples': [], 'solver_checks': 0, 'solver_seconds': 0.0}
    try:
        recs = T.name_constructions(getattr(mod, cls).global_mutations,
                                    smtlib, env)
    except T.Unsupported as e:
        return dict(base, engine_error=f'outside the translatable subset: {e}',
                    wall_s=round(time.time() - t0, 2))
    if not recs:
        return dict(base, status='VACUOUS',
                    engine_error='no declaration found in the source',
                    wall_s=round(time.time() - t0, 2))
    nq = 0
    stime = 0.0
    reach = 0
    bad = None
    unknown = []
    samples = []
    queries = []
    for pc, term in recs:
        for label, member in T.cases(name, lang):
            pre = z3.And(member, z3.InRe(digits, L['digits']))
            queries.append((pc, term, pre, 'reach', z3.BoolVal(True)))
            queries.append((pc, term, pre, 'symbol',
                            z3.Not(z3.InRe(term, L['symbol']))))
    for pc, term, pre, what, goal in queries:
        if True:
            sol = z3.Solver()
            sol.set('timeout', 60000)
            sol.add(pre, pc, goal)
            tq = time.time()
            r = str(sol.check())
            stime += time.time() - tq
            nq += 1
            if what == 'reach':
                if r == 'sat':
                    reach += 1
                    m = sol.model()
                    if len(samples) < 3:
                        samples.append({
                            'token': T.model_string(m, name),
                            'declared_name': T.model_string(m, term)})
                elif r != 'unsat':
                    unknown.append(f'reachability: {r}')
                continue
            if r == 'sat' and bad is None:
                m = sol.model()
                tok = T.model_string(m, name)
                bad = ({'token': tok, 'mutator': cls},
                       f'{cls}: for the token {tok!r} the declared name is '
                       f'{T.model_string(m, term)!r}, which is not a '
                       f'symbol')
            elif r not in ('sat', 'unsat'):
                unknown.append(f'symbol query: {r}')
    status = 'VIOLATED' if bad else ('UNKNOWN' if unknown else
                                     ('CONFIRMED' if reach else 'VACUOUS'))
    return {'status': status, 'cex': bad[0] if bad else None,
            'exc': {'type': 'Violation', 'msg': bad[1]} if bad else None,
            'paths': len(recs), 'paths_ok': len(recs) - len(unknown),
            'samples': samples, 'solver_checks': nq,
            'solver_seconds': round(stime, 2),
            'queries': {'name_constructions_in_source': len(recs),
                        'reachable': reach, 'undecided': unknown[:3]},
            'engine_error': '; '.join(unknown[:2]) or None,
            'wall_s': round(time.time() - t0, 2),
            'note': 'token texts of any length (characters of the BMP); the '
                    'sort tables are unconstrained (every name-in-use guard '
                    'may or may not fire)'}


# -------------------------------------------------------------- plumbing

def _setup():
    from vlib import shims
    shims.install_hash('T')
    shims.install_node_format()
    import argparse
    from ddsmt import options, mutators
    ns = options.parse_options(mutators, ['in.smt2', 'out.smt2', 'cmd'])
    setattr(options, '__PARSED_ARGS', ns)


def _reset():
    from vlib import shims
    from ddsmt import smtlib
    shims.reset_ids()
    smtlib.reset_information()


def bounds(tier):
    return {'literal_chars': 3 if tier == 'quick' else 4,
            'name_len': 3, 'corpus_scripts': len(CORPUS)}


def partitions(tier):
    bud = 160 if tier == 'quick' else 850
    parts = []
    for k in range(len(CORPUS)):
        parts.append({'name': f'corpus_{k}', 'kind': 'native',
                      'run': (lambda k=k: run_corpus(k)), 'budget_s': 300})
    for cls in E2LEAVES:
        parts.append({'name': f'e2leaves_{cls}', 'kind': 'E2',
                      'run': (lambda cls=cls: run_e2leaves(cls)),
                      'budget_s': 400})
    for cls in E2NAMES:
        parts.append({'name': f'e2names_{cls}', 'kind': 'E2',
                      'run': (lambda cls=cls: run_e2names(cls)),
                      'budget_s': 400})
    from harness import c16
    names = list(c16.FAMS)
    nch = 16
    for k in range(nch):
        chunk = names[k::nch]
        parts.append({'name': f'typed_{k}', 'kind': 'native',
                      'run': (lambda chunk=chunk: run_typed(chunk, tier)),
                      'budget_s': 400, 'bounds': {'families': len(chunk)}})
    import itertools
    for n in range(0, bounds(tier)['literal_chars'] + 1):
        pinsets = [()] if n < 2 else list(
            itertools.product(range(3), repeat=2 if n < 4 else 3))
        for pins in pinsets:
            nm = f'strlit_{n}' + ''.join(f'_{k}' for k in pins)
            parts.append({'name': nm, 'fn': make_strlit(n, pins),
                          'setup': _setup, 'reset': _reset, 'budget_s': bud,
                          'bounds': {'content_chars': n,
                                     'first_classes': list(pins)}})
    return parts


def replay(part, cex):
    from ddsmt import options, mutators
    ns = options.parse_options(mutators, ['in.smt2', 'out.smt2', 'cmd'])
    setattr(options, '__PARSED_ARGS', ns)
    try:
        if part.startswith('corpus'):
            r = run_corpus(int(part.split('_')[1]))
            return r['exc']['msg'] if r['exc'] else None
        if part.startswith('e2leaves'):
            return e2leaves_native(cex['mutator'], cex['token'])
        if part.startswith('e2names'):
            return e2names_native(cex['mutator'], cex['token'])
        if part.startswith('typed'):
            r = run_typed([cex['family']], 'thorough',
                          (cex['family'], list(cex['nums'])))
            return r['exc']['msg'] if r['exc'] else None
        if part.startswith('strlit'):
            n = int(part.split('_')[1])
            return strlit_body([cex[f'c{i}'] for i in range(n)])
        if part.startswith('names'):
            _, v, q = part.split('_')
            n1 = ('|' + cex['a'] + '|') if q == '1' else cex['a']
            return names_body(int(v), n1, cex['b'])
        if part == 'decimal':
            return decimal_body(cex['i'], cex['f'])
    except Exception as e:
        return f'{type(e).__name__}: {e}'
    return None
