"""C12 - tree equality, hashing, copying, pickling, traversal agree with
structure.

E1 over the real ``ddsmt.nodes``: pairs of trees of every shape up to the
bound with symbolic leaf texts (all aliasing patterns are covered by one
path each) under a symbolic member of a hash family that ranges from
"everything collides" to "collision free"; deepcopy; pickling round trip
(native struct shim); traversals with a symbolic depth limit.
"""
import copy
import pickle

from vlib.engine import assume, Violation
from vlib.ref import listmodel as M
from vlib import trees as T

ID = 'C12'
LEVEL = 'model_checking'
FUNCTIONS = ['ddsmt.nodes:Node.__eq__', 'ddsmt.nodes:Node.__hash__',
             'ddsmt.nodes:Node.__init__', 'ddsmt.nodes:Node.__deepcopy__',
             'ddsmt.nodes:Node.__getstate__', 'ddsmt.nodes:Node.__setstate__',
             'ddsmt.nodes:dfs', 'ddsmt.nodes:bfs', 'ddsmt.nodes:count_nodes',
             'ddsmt.nodes:count_exprs', 'ddsmt.nodes:filter_nodes',
             'ddsmt.nodes:binary_search']
ASSUMPTIONS = [
    'node ids come from the shared counter: two different nodes never carry '
    'the same id unless one is the pickled copy of the other (then their '
    'contents are equal)',
    'hash family H (vlib/shims.py): equal data hash equal; parameters (a, m) '
    'symbolic in {0,1} x {0,31}',
    'struct.pack/unpack run natively on realised ids (CrossHair mis-models '
    'native byte order)',
    'leaf texts have at most one character in the equality harness and two '
    'in the pickling harness (any code point)',
]
OUTSIDE = ['trees with more nodes than the bound',
           'transport between real processes is only exercised concretely '
           '(partition xproc, auxiliary)']


def bounds(tier):
    return {'max_nodes_eq': 4 if tier == 'quick' else 5,
            'max_nodes_copy': 5 if tier == 'quick' else 6}


def _setup_h():
    from vlib import shims
    shims.install_hash_family()
    shims.install_struct()


def _setup_s():
    from vlib import shims
    shims.install_hash('S')
    shims.install_struct()


def _eq_check(n1, m1, n2, m2):
    got = (n1 == n2)
    want = M.eq(m1, m2)
    if bool(got) != bool(want):
        return f'__eq__ = {got!r}, structural equality = {want!r}'
    if bool(n2 == n1) != bool(got):
        return '__eq__ is not symmetric'
    if got and n1.__hash__() != n2.__hash__():
        return 'equal trees with different hashes'
    if bool(n1 != n2) == bool(got):
        return '__ne__ inconsistent with __eq__'
    return None


def make_eq(pairs):
    def h(i: int, share: bool, a: int, m: int, l0: str, l1: str, l2: str,
          l3: str, l4: str, l5: str, l6: str, l7: str):
        from ddsmt.nodes import Node
        from vlib import shims
        assume(0 <= i < len(pairs))
        assume(0 <= a <= 1)
        assume(m == 0 or m == 31)
        shims.HASH_PARAMS['a'] = a
        shims.HASH_PARAMS['m'] = m
        s1, s2 = pairs[i]
        leaves = [l0, l1, l2, l3, l4, l5, l6, l7]
        k1, k2 = T.count_leaves(s1), T.count_leaves(s2)
        for x in leaves[:k1 + k2]:
            assume(len(x) <= 1)
        for x in leaves[k1 + k2:]:
            assume(len(x) == 0)
        n1, m1 = T.build(s1, leaves[:k1], Node)
        n2, m2 = T.build(s2, leaves[k1:k1 + k2], Node)
        if share:
            # n2 shares its first child object with n1 (same id, same data)
            assume(s1 != 'L' and s2 != 'L' and len(s1) > 0 and len(s2) > 0)
            n2 = Node(n1.data[0], *n2.data[1:])
            m2 = [m1[0]] + m2[1:]
        r = _eq_check(n1, m1, n2, m2)
        if r:
            raise Violation(r)
    return h


def leafeq_check(x, y, wrap):
    """Two leaves (or one-child lists around them): equal iff same text;
    equal nodes hash equal."""
    from ddsmt.nodes import Node
    n1, n2 = Node(x), Node(y)
    if wrap:
        n1, n2 = Node(Node('f'), n1), Node(Node('f'), n2)
    got = (n1 == n2)
    if bool(got) != bool(x == y):
        return (f'leaves {x!r} and {y!r}: == gives {got!r}')
    if x == y and n1.__hash__() != n2.__hash__():
        return f'equal leaves {x!r} hash differently'
    return None


def make_leafeq(maxlen):
    def h(x: str, y: str, wrap: bool):
        assume(1 <= len(x) <= maxlen and 1 <= len(y) <= maxlen)
        r = leafeq_check(x, y, wrap)
        if r:
            raise Violation(r)
    return h


def _native_family(a, m):
    """The hash-family member of the counterexample, as plain Python: part of
    the scenario (a Python str/tuple hash *may* collide), not a shim."""
    def vhash(data):
        if type(data) is tuple:
            h = len(data) + 1
            k = 1
            for c in data:
                h = h + k * c.hash
                k = k * m
            return h
        if len(data) == 0:
            return 7
        return a * ord(data[0]) + 7 + 1000 * (len(data) - 1)
    return vhash


def replay_eq(pairs, c):
    import ddsmt.nodes
    from ddsmt.nodes import Node
    r = _replay_eq(pairs, c)
    if r:
        return r
    ddsmt.nodes.hash = _native_family(c['a'], c['m'])
    try:
        r = _replay_eq(pairs, c)
    finally:
        del ddsmt.nodes.hash
    if r:
        return (f'{r} [with a colliding but consistent hash function: '
                f'a={c["a"]}, m={c["m"]}]')
    return None


def _replay_eq(pairs, c):
    from ddsmt.nodes import Node
    s1, s2 = pairs[c['i']]
    leaves = [c[f'l{k}'] for k in range(8)]
    k1, k2 = T.count_leaves(s1), T.count_leaves(s2)
    n1, m1 = T.build(s1, leaves[:k1], Node)
    n2, m2 = T.build(s2, leaves[k1:k1 + k2], Node)
    if c['share']:
        n2 = Node(n1.data[0], *n2.data[1:])
        m2 = [m1[0]] + m2[1:]
    r = _eq_check(n1, m1, n2, m2)
    if r:
        return f'{r}: {m1!r} vs {m2!r}'
    return None


def _copy_check(n1, m1):
    from ddsmt.nodes import Node
    c = copy.deepcopy(n1)
    if not isinstance(c, Node) or not M.eq(T.to_list(c), m1):
        return f'deepcopy is not an equal tree: {c!r}'
    if not (c == n1):
        return 'deepcopy does not compare equal'
    ids_o = [x.id for x in T.all_nodes(n1)]
    ids_c = [x.id for x in T.all_nodes(c)]
    if len(set(ids_c)) != len(ids_c):
        return 'deepcopy ids are not pairwise distinct'
    if set(ids_c) & set(ids_o):
        return 'deepcopy reuses an id of the original'
    if c.__hash__() != n1.__hash__():
        return 'deepcopy has a different hash'
    return None


def _pickle_check(n1, m1, native=False):
    from ddsmt.nodes import Node
    if native:
        p = pickle.loads(pickle.dumps(n1))
    else:
        # what pickle does with the class's own (un)pickling callbacks; the C
        # pickler itself cannot carry symbolic bytes
        state = n1.__getstate__()
        p = Node.__new__(Node)
        p.__setstate__(state)
    if not isinstance(p, Node) or not M.eq(T.to_list(p), m1):
        return f'pickling round trip changes the tree: {T.to_list(p)!r}'
    a, b = T.all_nodes(n1), T.all_nodes(p)
    if [x.id for x in a] != [x.id for x in b]:
        return 'pickling round trip changes node ids'
    if [x.__hash__() for x in a] != [x.__hash__() for x in b]:
        return 'pickling round trip changes hashes'
    if not (p == n1):
        return 'unpickled tree does not compare equal'
    return None


def make_copy(shapes, what, maxleaf):
    def h(i: int, l0: str, l1: str, l2: str, l3: str, l4: str):
        from ddsmt.nodes import Node
        assume(0 <= i < len(shapes))
        s = shapes[i]
        leaves = [l0, l1, l2, l3, l4]
        k = T.count_leaves(s)
        for x in leaves[:k]:
            assume(len(x) <= maxleaf)
        for x in leaves[k:]:
            assume(len(x) == 0)
        n1, m1 = T.build(s, leaves[:k], Node)
        r = _copy_check(n1, m1) if what == 'copy' else _pickle_check(n1, m1)
        if r:
            raise Violation(r)
    return h


def make_pickle(shapes):
    """One leaf (symbolically chosen position) carries a symbolic text of up
    to two arbitrary code points, the other leaves are the concrete 'x'/'yz':
    encoded length != character count is what the length-prefixed format has
    to get right."""
    def h(i: int, which: int, s: str):
        from ddsmt.nodes import Node
        assume(0 <= i < len(shapes))
        sh = shapes[i]
        k = T.count_leaves(sh)
        assume(0 <= which < max(k, 1))
        assume(len(s) <= 2)
        leaves = ['x', 'yz', 'x', 'yz', 'x']
        if k:
            leaves[which] = s
        n1, m1 = T.build(sh, leaves[:k], Node)
        r = _pickle_check(n1, m1)
        if r:
            raise Violation(r)
    return h


def replay_pickle(shapes, c):
    from ddsmt.nodes import Node
    sh = shapes[c['i']]
    k = T.count_leaves(sh)
    leaves = ['x', 'yz', 'x', 'yz', 'x']
    if k:
        leaves[c['which']] = c['s']
    n1, m1 = T.build(sh, leaves[:k], Node)
    r = _pickle_check(n1, m1, native=True) or _pickle_check(n1, m1)
    return f'{r}: {m1!r}' if r else None


def replay_copy(shapes, what, c):
    from ddsmt.nodes import Node
    s = shapes[c['i']]
    leaves = [c[f'l{k}'] for k in range(5)]
    n1, m1 = T.build(s, leaves[:T.count_leaves(s)], Node)
    r = _copy_check(n1, m1) if what == 'copy' else (
        _pickle_check(n1, m1, native=True) or _pickle_check(n1, m1))
    return f'{r}: {m1!r}' if r else None


def _model_dfs(trees, max_depth, depth=1):
    out = []
    for t in trees:
        out.append(t)
        if isinstance(t, list) and (not max_depth or depth < max_depth):
            out.extend(_model_dfs(t, max_depth, depth + 1))
    return out


def _model_bfs(trees, max_depth):
    out = []
    level = list(trees)
    depth = 1
    while level:
        nxt = []
        for t in level:
            out.append(t)
            if isinstance(t, list) and (not max_depth or depth < max_depth):
                nxt.extend(t)
        level = nxt
        depth += 1
    return out


def _walk_check(exprs, model, max_depth):
    from ddsmt import nodes
    md = max_depth
    got = [T.to_list(x) for x in nodes.dfs(exprs, md)]
    if got != _model_dfs(model, md):
        return f'dfs(max_depth={md!r}) = {got!r}'
    got = [T.to_list(x) for x in nodes.bfs(exprs, md)]
    if got != _model_bfs(model, md):
        return f'bfs(max_depth={md!r}) = {got!r}'
    if md is None or md == 0:
        seen = [id(x) for x in nodes.dfs(exprs)]
        if len(set(seen)) != len(seen):
            return 'dfs visits a node twice'
        if nodes.count_nodes(exprs) != M.count_nodes(model):
            return f'count_nodes = {nodes.count_nodes(exprs)}'
        if nodes.count_exprs(exprs) != M.count_exprs(model):
            return f'count_exprs = {nodes.count_exprs(exprs)}'
        got = [T.to_list(x) for x in
               nodes.filter_nodes(exprs, lambda n: not n.is_leaf(), None)]
        if got != [t for t in M.dfs(model) if isinstance(t, list)]:
            return f'filter_nodes = {got!r}'
        if len(exprs) == 1:
            one = exprs[0]
            got = [T.to_list(x) for x in nodes.dfs(one)]
            want = [model[0]] + (M.dfs(model[0])
                                 if isinstance(model[0], list) else [])
            if got != want:
                return f'dfs(single node) = {got!r}'
            if nodes.count_nodes(one) != len(M.dfs(model)):
                return 'count_nodes(single node)'
    return None


def make_walk(shapes):
    def h(i: int, j: int, two: bool, max_depth: int, md_none: bool):
        from ddsmt.nodes import Node
        assume(0 <= i < len(shapes))
        assume(0 <= max_depth <= 5)
        s = shapes[i]
        leaves = ['a', 'b', 'c', 'd', 'e', 'f', 'g', 'h', 'i', 'j']
        n1, m1 = T.build(s, leaves, Node)
        exprs, model = [n1], [m1]
        if two:
            assume(0 <= j < len(shapes))
            n2, m2 = T.build(shapes[j], leaves, Node)
            exprs.append(n2)
            model.append(m2)
        else:
            assume(j == 0)
        r = _walk_check(exprs, model, None if md_none else max_depth)
        if r:
            raise Violation(r)
    return h


def replay_walk(shapes, c):
    from ddsmt.nodes import Node
    leaves = ['a', 'b', 'c', 'd', 'e', 'f', 'g', 'h', 'i', 'j']
    n1, m1 = T.build(shapes[c['i']], leaves, Node)
    exprs, model = [n1], [m1]
    if c['two']:
        n2, m2 = T.build(shapes[c['j']], leaves, Node)
        exprs.append(n2)
        model.append(m2)
    return _walk_check(exprs, model, None if c['md_none'] else c['max_depth'])


def _bsearch_check(n):
    """binary_search(n): every level splits [0, n) into den consecutive,
    non-overlapping sections covering it; sizes differ by at most one."""
    from ddsmt import nodes
    secs = list(nodes.binary_search(n))
    den = 2
    pos = 0
    while den * 2 <= n:
        level = secs[pos:pos + den]
        pos += den
        if len(level) != den:
            return f'binary_search({n}): level {den} incomplete'
        level = sorted(level)
        if level[0][0] != 0 or level[-1][1] != n:
            return f'binary_search({n}): level {den} does not cover [0,n)'
        for (a, b), (c, d) in zip(level, level[1:]):
            if b != c:
                return f'binary_search({n}): gap/overlap at level {den}'
        sizes = [b - a for a, b in level]
        if min(sizes) < 1 or max(sizes) - min(sizes) > 1:
            return f'binary_search({n}): uneven sections {sizes}'
        den *= 2
    if pos != len(secs):
        return f'binary_search({n}): extra sections'
    return None


def run_bsearch(limit):
    import time
    t0 = time.time()
    bad = None
    for n in range(0, limit + 1):
        r = _bsearch_check(n)
        if r:
            bad = (n, r)
            break
    return {'status': 'VIOLATED' if bad else 'CONFIRMED',
            'cex': {'n': bad[0]} if bad else None,
            'exc': {'type': 'Violation', 'msg': bad[1]} if bad else None,
            'paths': limit + 1, 'paths_ok': limit + 1, 'samples': [{'n': 9}],
            'solver_checks': 0, 'solver_seconds': 0.0,
            'wall_s': round(time.time() - t0, 2),
            'note': 'concrete enumeration (float arithmetic int(num/den*n) '
                    'is not solver-decided here): auxiliary'}


def _child_nodes(k):
    """Runs in a forked worker: creates nodes, returns their ids and a tree."""
    from ddsmt.nodes import Node
    ids = [Node(f'c{k}_{i}').id for i in range(20)]
    tree = Node('f', Node('g', f'leaf{k}', 'é∀'), ())
    return ids, tree, [n.id for n in T.all_nodes(tree)], tree.__hash__()


def run_xproc():
    """Auxiliary (real fork pool, concrete): ids handed out in different
    processes never coincide; a tree sent back from a worker is equal to what
    the worker built, with the same ids and hash."""
    import multiprocessing
    import time
    from ddsmt.nodes import Node
    t0 = time.time()
    ctx = multiprocessing.get_context('fork')
    mine = [Node(f'p{i}').id for i in range(20)]
    with ctx.Pool(3) as pool:
        res = pool.map(_child_nodes, range(6))
    mine += [Node(f'q{i}').id for i in range(20)]
    allids = list(mine)
    bad = None
    for k, (ids, tree, tids, h) in enumerate(res):
        allids += ids + tids
        if [n.id for n in T.all_nodes(tree)] != tids:
            bad = 'node ids changed in transport between processes'
        if T.to_list(tree) != ['f', ['g', f'leaf{k}', 'é∀'], []]:
            bad = f'tree changed in transport: {T.to_list(tree)!r}'
        if tree.__hash__() != h:
            bad = 'hash changed in transport'
    if len(set(allids)) != len(allids):
        bad = ('two nodes created in different processes of a fork pool '
               'carry the same id')
    return {'status': 'VIOLATED' if bad else 'CONFIRMED',
            'cex': {'xproc': True} if bad else None,
            'exc': {'type': 'Violation', 'msg': bad} if bad else None,
            'paths': len(allids), 'paths_ok': len(allids),
            'samples': [{'ids_checked': len(allids)}],
            'solver_checks': 0, 'solver_seconds': 0.0,
            'wall_s': round(time.time() - t0, 2),
            'note': 'real fork pool, concrete (auxiliary)'}


def run_deep():
    """Auxiliary (concrete): trees nested deeper than the recursion limit
    through __eq__, __hash__, deepcopy, pickling, traversals and counters."""
    import copy
    import pickle
    import sys
    import time
    from ddsmt import nodes
    from ddsmt.nodes import Node
    t0 = time.time()
    old = sys.getrecursionlimit()
    sys.setrecursionlimit(1000)
    bad = None
    try:
        def deep(d, leaf):
            n = Node(leaf)
            for _ in range(d):
                n = Node('f', n, 'y')
            return n
        a, b, c = deep(4000, 'x'), deep(4000, 'x'), deep(4000, 'z')
        checks = [
            ('__eq__ equal', lambda: (a == b) is True),
            ('__eq__ different', lambda: (a == c) is False),
            ('hash', lambda: a.__hash__() == b.__hash__()),
            ('deepcopy', lambda: copy.deepcopy(a) == a),
            ('pickle', lambda: pickle.loads(pickle.dumps(a)) == a),
            ('dfs', lambda: sum(1 for _ in nodes.dfs([a])) == 12001),
            ('bfs', lambda: sum(1 for _ in nodes.bfs([a])) == 12001),
            ('count_nodes', lambda: nodes.count_nodes([a]) == 12001),
            ('count_exprs', lambda: nodes.count_exprs([a]) == 4000),
            ('reduplicate', lambda: nodes.reduplicate([a, a])[1] == a),
            ('substitute', lambda: nodes.substitute(
                [a], {Node('x'): Node('w')})[0] == deep(4000, 'w')),
        ]
        for name, f in checks:
            try:
                ok = f()
            except RecursionError:
                ok = 'RecursionError'
            except Exception as e:
                ok = f'{type(e).__name__}: {e}'
            if ok is not True and bad is None:
                bad = ({'operation': name},
                       f'{name} on a tree of depth 4000: {ok!r}')
    finally:
        sys.setrecursionlimit(old)
    return {'status': 'VIOLATED' if bad else 'CONFIRMED',
            'cex': bad[0] if bad else None,
            'exc': {'type': 'Violation', 'msg': bad[1]} if bad else None,
            'paths': 11, 'paths_ok': 11, 'samples': [{'depth': 4000}],
            'solver_checks': 0, 'solver_seconds': 0.0,
            'wall_s': round(time.time() - t0, 2),
            'note': 'concrete deep trees (auxiliary)'}


def _chunks(xs, n):
    k = max(1, (len(xs) + n - 1) // n)
    return [xs[i:i + k] for i in range(0, len(xs), k)]


def _eq_pairs(tier):
    """All pairs of shapes up to N-1 nodes, plus the pairs of N-node shapes
    with the same number of leaves (the ones on which the comparison walks
    deep)."""
    n = bounds(tier)['max_nodes_eq']
    small = T.shapes_up_to(n - 1)
    big = [s for s in T.shapes_up_to(n) if T.count_shape_nodes(s) == n]
    pairs = [(a, b) for a in small for b in small]
    pairs += [(a, b) for a in big for b in big
              if T.count_leaves(a) == T.count_leaves(b)]
    return [(a, b) for a, b in pairs
            if T.count_leaves(a) + T.count_leaves(b) <= 8]


def _copy_shapes(tier):
    return [s for s in T.shapes_up_to(bounds(tier)['max_nodes_copy'])
            if T.count_leaves(s) <= 5]


def _pickle_shapes(tier):
    n = bounds(tier)['max_nodes_copy'] - 1
    return [s for s in T.shapes_up_to(n) if T.count_leaves(s) <= 5]


def _walk_shapes(tier):
    return T.shapes_up_to(4 if tier == 'quick' else 5)


def partitions(tier):
    bud = 160 if tier == 'quick' else 850
    parts = []
    for k, ch in enumerate(_chunks(_eq_pairs(tier), 48 if tier == 'quick'
                                   else 160)):
        parts.append({'name': f'eq_{k}', 'fn': make_eq(ch),
                      'setup': _setup_h, 'budget_s': bud,
                      'bounds': {'shape_pairs': len(ch)}})
    parts.append({'name': 'leafeq', 'fn': make_leafeq(3 if tier == 'quick'
                                                       else 4),
                  'setup': _setup_s, 'budget_s': bud,
                  'bounds': {'leaf_text_len': 3 if tier == 'quick' else 4}})
    for k, ch in enumerate(_chunks(_copy_shapes(tier), 8)):
        parts.append({'name': f'copy_{k}', 'fn': make_copy(ch, 'copy', 1),
                      'setup': _setup_s, 'budget_s': bud,
                      'bounds': {'shapes': len(ch)}})
    for k, ch in enumerate(_chunks(_pickle_shapes(tier), 16)):
        parts.append({'name': f'pickle_{k}', 'fn': make_pickle(ch),
                      'setup': _setup_s, 'budget_s': bud,
                      'bounds': {'shapes': len(ch), 'symbolic_leaf_len': 2}})
    for k, ch in enumerate(_chunks(_walk_shapes(tier), 4)):
        parts.append({'name': f'walk_{k}', 'fn': make_walk(ch),
                      'setup': _setup_s, 'budget_s': bud,
                      'bounds': {'shapes': len(ch), 'max_depth': '0..5|None'}})
    parts.append({'name': 'deep', 'kind': 'native', 'run': run_deep,
                  'budget_s': 300})
    parts.append({'name': 'xproc', 'kind': 'native', 'run': run_xproc,
                  'budget_s': 120})
    parts.append({'name': 'bsearch', 'kind': 'native',
                  'run': lambda: run_bsearch(300 if tier == 'quick' else 3000),
                  'budget_s': 60})
    return parts


def replay(part, cex):
    tier_parts = None
    import os
    for tier in ('quick', 'thorough'):
        for p in partitions(tier):
            if p['name'] == part and tier == os.environ.get('VERIF_TIER_REPLAY', tier):
                tier_parts = (tier, p)
                break
        if tier_parts:
            break
    tier = os.environ.get('VERIF_TIER_REPLAY', 'quick')
    kind, _, k = part.partition('_')
    if part == 'leafeq':
        try:
            return leafeq_check(cex['x'], cex['y'], cex['wrap'])
        except Exception as e:
            return f'{type(e).__name__}: {e}'
    try:
        if kind == 'eq':
            ch = _chunks(_eq_pairs(tier), 48 if tier == 'quick' else 160)
            return replay_eq(ch[int(k)], cex)
        if kind == 'copy':
            ch = _chunks(_copy_shapes(tier), 8)
            return replay_copy(ch[int(k)], kind, cex)
        if kind == 'pickle':
            ch = _chunks(_pickle_shapes(tier), 16)
            return replay_pickle(ch[int(k)], cex)
        if kind == 'walk':
            ch = _chunks(_walk_shapes(tier), 4)
            return replay_walk(ch[int(k)], cex)
        if kind == 'bsearch':
            return _bsearch_check(cex['n'])
        if kind == 'deep':
            r = run_deep()
            return r['exc']['msg'] if r['exc'] else None
        if kind == 'xproc':
            r = run_xproc()
            return r['exc']['msg'] if r['exc'] else None
    except Exception as e:
        return f'{type(e).__name__}: {e}'
    return None
