"""C11 - applying a simplification changes exactly the designated subtrees.

E1 over the real ``nodes.substitute`` / ``mutator_utils.apply_simp`` /
``smtlib.introduce_variables`` against the nested-list model: forests of
every shape up to the bound, *symbolic leaf texts* (one path covers every
aliasing pattern between leaves, keys and replacement texts consistent with
its branch decisions), eight kinds of replacement map (structural leaf /
subtree keys, identity keys with replacement or deletion, mixtures, a
replacement that contains its own key), list and single-node input.
"""
from vlib.engine import assume, Violation
from vlib.ref import listmodel as M
from vlib import trees as T

ID = 'C11'
LEVEL = 'model_checking'
FUNCTIONS = ['ddsmt.nodes:substitute', 'ddsmt.mutator_utils:apply_simp',
             'ddsmt.smtlib:get_defined_fun',
             'ddsmt.smtlib:introduce_variables', 'ddsmt.nodes:Node.__eq__']
ASSUMPTIONS = [
    'identity keys designate pairwise non-nested nodes of the input',
    'a replacement inserted through an identity key is not itself equal to a '
    'structural key of the same map (the code then applies the structural '
    'entry to it once; the property does not say either way)',
    'hash shim mode S (all leaves collide: every dict probe of the '
    'replacement map goes through Node.__eq__)',
    'fuel: at most 4000 Node constructions/hash computations per call '
    '(non-termination shows up as Fuel)',
]
OUTSIDE = ['trees with more nodes than the bound; more than three entries '
           'in one replacement map; leaf texts longer than one character']

KINDS = 10


def bounds(tier):
    return {'max_nodes': 4 if tier == 'quick' else 5}


def _forests(tier):
    n = bounds(tier)['max_nodes']
    sh = [s for s in T.shapes_up_to(n) if 1 <= T.count_leaves(s) <= 5]
    out = [(s,) for s in sh]
    small = [s for s in T.shapes_up_to(n - 2) if T.count_leaves(s) >= 1]
    for a in small:
        for b in small:
            if T.count_shape_nodes(a) + T.count_shape_nodes(b) <= n \
                    and T.count_leaves(a) + T.count_leaves(b) <= 5:
                out.append((a, b))
    return out


def _positions(forest):
    out = []
    for i, s in enumerate(forest):
        out.extend(T.paths(s, (i,)))
    return out


def _nested(p, q):
    k = min(len(p), len(q))
    return p[:k] == q[:k]


def _mk(Node, m):
    """Node tree from a list model."""
    if isinstance(m, list):
        return Node(*[_mk(Node, c) for c in m])
    return Node(m)


def _scenario(c, forest, Node):
    """Returns (exprs, model, repl dict, path_repl, skey, sval, single)."""
    leaves = [c['l0'], c['l1'], c['l2'], c['l3'], c['l4']]
    exprs, model = [], []
    pos = [0]
    for s in forest:
        n, m = T.build(s, leaves, Node, pos)
        exprs.append(n)
        model.append(m)
    allpos = _positions(forest)
    kind = c['kind']
    k, v, w = c['k'], c['v'], c['w']
    repl = {}
    path_repl = {}
    skey = sval = None

    def at(path):
        return T.node_at(exprs[path[0]], path[1:])

    def idrepl(pi, val_model):
        p = allpos[pi]
        if val_model is M.DELETE:
            repl[at(p).id] = None
        else:
            repl[at(p).id] = _mk(Node, val_model)
        path_repl[p] = val_model

    if kind == 0:
        skey, sval = k, v
    elif kind == 1:
        skey, sval = k, [v, k]
    elif kind == 2:
        skey, sval = [k, w], v
    elif kind == 3:
        idrepl(c['p1'], v)
    elif kind == 4:
        idrepl(c['p1'], M.DELETE)
    elif kind == 5:
        idrepl(c['p1'], [v, w])
        idrepl(c['p2'], M.DELETE)
    elif kind == 6:
        idrepl(c['p1'], v)
        skey, sval = k, w
    elif kind == 7:
        idrepl(c['p1'], M.DELETE)
        idrepl(c['p2'], v)
        skey, sval = k, [w, k]
    elif kind == 8:
        # identity replacement that contains the structural key: inserted as
        # given, the structural rule must not rewrite inside it
        idrepl(c['p1'], [v, k])
        skey, sval = k, w
    elif kind == 9:
        # structural deletion: every occurrence of the key disappears
        skey, sval = k, M.DELETE
    if skey is not None:
        repl[_mk(Node, skey)] = None if sval is M.DELETE \
            else _mk(Node, sval)
    return exprs, model, repl, path_repl, skey, sval


def _ids(exprs):
    out = []
    for e in exprs:
        out.extend(n.id for n in T.all_nodes(e))
    return out


def _check(c, forest, fuel=None):
    from ddsmt import nodes
    from ddsmt.nodes import Node
    exprs, model, repl, path_repl, skey, sval = _scenario(c, forest, Node)
    single = c['single']
    before = [T.to_list(e) for e in exprs]
    before_ids = _ids(exprs)
    repl_vals = {key: val for key, val in repl.items()}
    if fuel:
        fuel(4000)
    try:
        if single:
            res = nodes.substitute(exprs[0], repl)
        else:
            res = nodes.substitute(exprs, repl)
    finally:
        if fuel:
            fuel(None)
    want = M.subst_paths(model, path_repl, skey, sval)
    if [T.to_list(e) for e in exprs] != before or _ids(exprs) != before_ids:
        return 'substitute modified the input it was applied to'
    if single:
        got = [] if res is None else [T.to_list(res)]
        res_list = [] if res is None else [res]
    else:
        got = [T.to_list(e) for e in res]
        res_list = res
    if got != want:
        return (f'result {got!r} differs from the model {want!r} for input '
                f'{before!r}, identity entries {_show(path_repl)}, '
                f'structural entry {skey!r} -> {sval!r}')
    # untouched subtrees keep their identity; replacements are inserted as
    # the given objects
    def touched(m, path):
        if path in path_repl:
            return True
        if skey is not None and M.eq(m, skey):
            return True
        if isinstance(m, list):
            return any(touched(cm, path + (i,)) for i, cm in enumerate(m))
        return False

    def walk(onode, m, path, rnode):
        if not touched(m, path):
            if rnode is not onode:
                return f'untouched subtree at {path} lost its identity'
            return None
        if path in path_repl or (skey is not None and M.eq(m, skey)):
            return None
        ri = 0
        for i, cm in enumerate(m):
            cp = path + (i,)
            if cp in path_repl and path_repl[cp] is M.DELETE:
                continue
            if cp not in path_repl and sval is M.DELETE and M.eq(cm, skey):
                continue
            r = walk(onode.data[i], cm, cp, rnode.data[ri])
            if r:
                return r
            ri += 1
        return None

    ri = 0
    for i, m in enumerate(model):
        p = (i,)
        if p in path_repl and path_repl[p] is M.DELETE:
            continue
        if p not in path_repl and sval is M.DELETE and M.eq(m, skey):
            continue
        r = walk(exprs[i], m, p, res_list[ri])
        if r:
            return r
        ri += 1
    return None


def _show(path_repl):
    return {p: ('<delete>' if v is M.DELETE else v)
            for p, v in path_repl.items()}


def make(forests, kind):
    def h(i: int, single: bool, p1: int, p2: int, l0: str, l1: str, l2: str,
          l3: str, l4: str, k: str, v: str, w: str):
        from vlib import shims
        c = dict(locals())
        c['kind'] = kind
        assume(0 <= i < len(forests))
        forest = forests[i]
        for x in (l0, l1, l2, l3, l4, k, v, w):
            assume(len(x) <= 1)
        nl = sum(T.count_leaves(s) for s in forest)
        for x in [l0, l1, l2, l3, l4][nl:]:
            assume(len(x) == 0)
        if single:
            assume(len(forest) == 1)
        allpos = _positions(forest)
        uses_p1 = kind in (3, 4, 5, 6, 7, 8)
        uses_p2 = kind in (5, 7)
        if uses_p1:
            assume(0 <= p1 < len(allpos))
        else:
            assume(p1 == 0)
        if uses_p2:
            assume(0 <= p2 < len(allpos))
            assume(not _nested(allpos[p1], allpos[p2]))
        else:
            assume(p2 == 0)
        if kind not in (0, 1, 2, 6, 7, 8, 9):
            assume(len(k) == 0)
        if kind in (0, 4, 9):
            assume(len(w) == 0)
        if kind in (4, 9):
            assume(len(v) == 0)
        if kind in (6, 7):
            assume(v != k)       # see ASSUMPTIONS
        r = _check(c, forest, fuel=shims.set_fuel)
        if r:
            raise Violation(r)
    return h


# ------------------------------------------------ fresh declarations

def _decl_check(c):
    from ddsmt.nodes import Node
    from ddsmt.mutator_utils import Simplification, apply_simp
    cmds = [Node(c['id0'], 'a'), Node(c['id1'], 'b'), Node(c['id2'], 'x')]
    if c['leaf1']:
        cmds[1] = Node(c['id1'])       # a top-level leaf (e.g. a comment)
    if c.get('nest0'):
        # a top-level s-expression without leaf children, e.g. what
        # ReplaceByChild leaves of (assert ((_ extract 7 0) x))
        cmds[0] = Node(Node(c['id0'], 'a'), Node(Node('k')))
    cmds = cmds[:c['n']]
    target = cmds[-1]
    var = Node('declare-const', 'fresh', 'Int')
    substs = {target.id: Node('assert', 'fresh')} if c['change'] else \
        {10 ** 12: Node('y')}
    res = apply_simp(cmds, Simplification(substs, [var]))
    model = [T.to_list(x) for x in cmds]
    if not c['change']:
        if res is not cmds:
            return 'input returned as a different object although unchanged'
        return None
    new = list(model)
    new[-1] = ['assert', 'fresh']
    pos = 0
    while pos < len(new) and isinstance(new[pos], list) and new[pos] \
            and not isinstance(new[pos][0], list) \
            and new[pos][0] in ('set-info', 'set-logic'):
        pos += 1
    want = new[:pos] + [['declare-const', 'fresh', 'Int']] + new[pos:]
    got = [T.to_list(x) for x in res]
    if got != want:
        return (f'declaration not inserted after the set-info/set-logic '
                f'prefix: {got!r}, expected {want!r}')
    return None


def make_decl():
    def h(id0: str, id1: str, id2: str, n: int, leaf1: bool, change: bool,
          nest0: bool):
        c = dict(locals())
        assume(1 <= n <= 3)
        if nest0:
            assume(n >= 2)        # the nested command is not the target
        for x in (id0, id1, id2):
            assume(len(x) <= 16)
        if n < 3:
            assume(len(id2) == 0)
        if n < 2:
            assume(len(id1) == 0 and not leaf1)
        r = _decl_check(c)
        if r:
            raise Violation(r)
    return h


# ------------------------------------------------ function inlining

def inline_check(c):
    """smtlib.get_defined_fun instantiates a body by *simultaneous*
    structural substitution formal -> actual (property C11: 'function
    inlining and let substitution use structural keys formal -> actual')."""
    from ddsmt import smtlib
    from ddsmt.nodes import Node
    body = ('+', ('*', '2', 'a'), ('-', 'b', 'c'), 'a')
    exprs = [Node('define-fun', 'f', (('a', 'Int'), ('b', 'Int'),
                                      ('c', 'Int')), 'Int', body)]
    acts = [c['x0'], c['x1'], c['x2']]
    if c['nested']:
        acts[1] = ['g', c['x1'], c['x0']]
    call = Node('f', *[_mk(Node, a) for a in acts])
    exprs.append(Node('assert', Node('>', call, '0')))
    smtlib.collect_information(exprs)
    res = smtlib.get_defined_fun(call)
    env = {'a': acts[0], 'b': acts[1], 'c': acts[2]}

    def inst(t):
        if isinstance(t, tuple):
            return [inst(x) for x in t]
        return env.get(t, t)

    want = inst(body)
    got = T.to_list(res)
    if got != want:
        return (f'inlining (f {acts[0]!r} {acts[1]!r} {acts[2]!r}) gives '
                f'{got!r}, simultaneous substitution gives {want!r}')
    return None


def make_inline():
    def h(x0: str, x1: str, x2: str, nested: bool):
        for x in (x0, x1, x2):
            assume(len(x) == 1)
        r = inline_check(dict(locals()))
        if r:
            raise Violation(r)
    return h


def _chunks(xs, n):
    k = max(1, (len(xs) + n - 1) // n)
    return [xs[i:i + k] for i in range(0, len(xs), k)]


def _setup():
    from vlib import shims
    shims.install_hash('S')


def _reset():
    from vlib import shims
    shims.reset_ids()


def _reset_info():
    from vlib import shims
    from ddsmt import smtlib
    shims.reset_ids()
    smtlib.reset_information()


NCHUNK = 6


def partitions(tier):
    parts = []
    bud = 170 if tier == 'quick' else 850
    for kind in range(KINDS):
        for j, ch in enumerate(_chunks(_forests(tier), NCHUNK)):
            parts.append({'name': f'k{kind}_{j}', 'fn': make(ch, kind),
                          'setup': _setup, 'reset': _reset, 'budget_s': bud,
                          'bounds': {'kind': kind, 'forests': len(ch)}})
    parts.append({'name': 'inline', 'fn': make_inline(), 'setup': _setup,
                  'reset': _reset_info, 'budget_s': bud})
    parts.append({'name': 'decl', 'fn': make_decl(), 'setup': _setup, 'reset': _reset,
                  'budget_s': bud})
    return parts


def replay(part, cex):
    import os
    import signal
    tier = os.environ.get('VERIF_TIER_REPLAY', 'quick')

    def on_alarm(*a):
        raise TimeoutError('did not return within 20 s (non-termination)')

    signal.signal(signal.SIGALRM, on_alarm)
    signal.alarm(20)
    try:
        if part == 'decl':
            return _decl_check(cex)
        if part == 'inline':
            return inline_check(cex)
        kind, j = part[1:].split('_')
        ch = _chunks(_forests(tier), NCHUNK)[int(j)]
        c = dict(cex)
        c['kind'] = int(kind)
        return _check(c, ch[cex['i']])
    except TimeoutError as e:
        return f'substitute {e}'
    except MemoryError:
        return 'substitute exhausted memory (non-termination)'
    except Exception as e:
        return f'{type(e).__name__}: {e}'
    finally:
        signal.alarm(0)
