"""C10 - runs exceeding the time or memory limit are rejected and never stall.

E1 harnesses over the real ``ddsmt.checker`` with a nondeterministic fake
``Popen`` (the outcome of ``communicate`` - returns or raises TimeoutExpired -
the return code including negative signal numbers, and the streams are
symbolic):
  exec     execute(): on time-out the child is killed, nothing blocks on it
           afterwards, the record is the time-out record; wall-clock limit is
           handed to communicate()
  verdict  check(): a timed-out / signalled candidate is rejected unless the
           golden run ended the same way - and check() never raises
  golden   do_golden_runs(): a match string missing from the golden output
           ends ddSMT with status 1; default time-out 1.5 x (runtime + 1),
           explicit --timeout/--timeout-cc untouched
  limits   limit_resources(): RLIMIT_CPU = ceil(timeout), RLIMIT_AS =
           memout MiB, applied to the child pid
"""
import math

from vlib.engine import assume, Violation, Skip, fresh_real
from vlib.ref import spec_checker as S
from vlib.stubs.nofmt import Num, Str, unwrap, ContractMath
from harness.c09 import _set_args, _Bytes

ID = 'C10'
LEVEL = 'model_checking'
FUNCTIONS = ['ddsmt.checker:execute', 'ddsmt.checker:check',
             'ddsmt.checker:matches_golden', 'ddsmt.checker:do_golden_runs',
             'ddsmt.checker:limit_resources']
ASSUMPTIONS = [
    'times (time limit, run time) are modelled as mathematical reals: IEEE '
    'rounding of the float arithmetic is outside; round/ceil/floor/int on '
    'them are answered by their documented contract (vlib/stubs/nofmt.py); '
    'log-message formatting is stubbed',
    'fake Popen: communicate(timeout) nondeterministically returns (out, err) '
    'or raises TimeoutExpired; returncode is None until communicate returned; '
    'wait()/communicate() without a timeout on a killed-but-unreaped child '
    'are recorded as potentially blocking calls',
    'fake resource module records prlimit/setrlimit calls instead of applying '
    'them',
    'the time-out record is RunInfo(None, None, None, timeout) as documented '
    'in the code; signal deaths are negative exit codes',
]
OUTSIDE = ['kernel enforcement of RLIMIT_CPU / RLIMIT_AS',
           'pipes kept open by grandchildren of the command',
           'total wall time of a whole ddSMT run',
           'strings longer than the bound']


def bounds(tier):
    return {'max_str_len': 1 if tier == 'quick' else 2}


# ------------------------------------------------------------------ exec

def _exec_body(c, sym=False):
    from ddsmt import checker
    if sym:
        c = dict(c)
        c['timeout'] = Num(c['timeout'])
        c['out'] = Str(c['out'])
        c['err'] = Str(c['err'])
    log = []
    limits = []

    class TimeoutExpired(Exception):
        pass

    class FakePopen:
        def __init__(self, args, stdout=None, stderr=None, preexec_fn=None):
            self.pid = 4242
            self.returncode = None
            log.append(('spawn', list(args)))
            if preexec_fn is not None:
                preexec_fn()        # runs in the child before exec

        def communicate(self, timeout=None):
            log.append(('communicate', timeout))
            if timeout is None and c['times_out']:
                raise Violation('communicate() without a time limit on a '
                                'command that never finishes: ddSMT stalls')
            if c['times_out']:
                raise TimeoutExpired()
            self.returncode = c['rc']
            return _Bytes(c['out']), _Bytes(c['err'])

        def wait(self, timeout=None):
            log.append(('wait', timeout))
            if any(e[0] == 'kill' for e in log):
                self.returncode = -9
                return -9
            if timeout is None and c['times_out']:
                raise Violation('wait() without a time limit before kill()')
            raise TimeoutExpired()

        def kill(self):
            log.append(('kill',))

        def terminate(self):
            log.append(('terminate',))

        def poll(self):
            return self.returncode

    class FakeSubprocess:
        PIPE = -1
        Popen = FakePopen

    FakeSubprocess.TimeoutExpired = TimeoutExpired

    class FakeResource:
        RLIMIT_AS = 9
        RLIMIT_CPU = 0
        RLIM_INFINITY = -1

        @staticmethod
        def prlimit(pid, res, lim):
            limits.append((pid, res, lim))

        @staticmethod
        def setrlimit(res, lim):
            limits.append((None, res, lim))

    if not c.get('prlimit', True):
        # platforms without prlimit: limits are set in the child (preexec)
        class FakeResource:            # noqa: F811
            RLIMIT_AS = 9
            RLIMIT_CPU = 0
            RLIM_INFINITY = -1

            @staticmethod
            def setrlimit(res, lim):
                limits.append((None, res, lim))

    # the clock: an arbitrary instant t0 at the first reading, t0 + dt (dt >= 0)
    # afterwards
    t0 = c.get('t0', 1000.0)
    dt = c.get('dt', 0.25)
    readings = []

    class FakeTime:
        @staticmethod
        def time():
            readings.append(1)
            return t0 if len(readings) == 1 else t0 + dt

    _set_args(cmd=['s'], unchecked=False, memout=None, timeout=c['timeout'])
    saved = (checker.subprocess, checker.resource, checker.math, checker.time)
    checker.subprocess = FakeSubprocess
    checker.resource = FakeResource
    checker.time = FakeTime
    if sym:
        checker.math = ContractMath()
    try:
        ri = checker.execute(['s'], 'f.smt2', c['timeout'])
    finally:
        (checker.subprocess, checker.resource, checker.math,
         checker.time) = saved
    c = {k: unwrap(v) for k, v in c.items()}
    ri = checker.RunInfo(*[unwrap(x) for x in ri])
    comm = [(e[0], unwrap(e[1])) for e in log if e[0] == 'communicate']
    if len(comm) < 1 or comm[0][1] != c['timeout']:
        return f'wall-clock limit not passed to communicate(): {log!r}'
    cpu = [l for l in limits if l[1] == 0]
    if len(cpu) != 1 or not (cpu[0][2][0] - 1 < c['timeout'] <= cpu[0][2][0]):
        return f'CPU time limit of the command not set to ceil(limit): {limits!r}'
    if (cpu[0][0] == 4242) != bool(c.get('prlimit', True)):
        return f'limit applied to the wrong process: {limits!r}'
    if c['times_out']:
        if ('kill',) not in log:
            return f'timed-out command was not killed: {log!r}'
        if not (ri.exit is None or ri.exit < 0) or ri.out is not None \
                or ri.err is not None:
            return f'time-out record expected, got {ri!r}'
    else:
        if ri.exit != c['rc'] or ri.out != c['out'] or ri.err != c['err']:
            return f'outcome not reported faithfully: {ri!r}'
        if ('kill',) in log:
            return 'finished command was killed'
        # the recorded run time (from which the default time limit is
        # derived) is the time between the two clock readings
        rt = unwrap(ri.runtime)
        want = unwrap(dt)
        if not (want - 0.001 <= rt <= want + 0.001):
            return (f'recorded run time {rt!r} although the command ran for '
                    f'{want!r} s (clock {unwrap(t0)!r} -> '
                    f'{unwrap(t0) + want!r})')
    return None


def make_exec(m):
    def h(times_out: bool, rc: int, out: str, err: str, prlimit: bool):
        timeout = fresh_real('timeout')
        t0 = fresh_real('t0')
        dt = fresh_real('dt')
        assume(0.0 < timeout <= 1000000.0)
        assume(0.0 <= t0 <= 4000000000.0 and 0.0 <= dt <= 1000000.0)
        assume(len(out) <= m and len(err) <= m)
        r = _exec_body(dict(locals()), sym=True)
        if r:
            raise Violation(r)
    return h


# --------------------------------------------------------------- verdict

def _record(kind, exit_, out, err):
    from ddsmt import checker
    if kind == 0:      # finished (exit may be negative: died from a signal)
        return checker.RunInfo(exit_, out, err, 0.1)
    return checker.RunInfo(None, None, None, 5.0)   # time-out record


def _verdict_body(c):
    from ddsmt import checker
    mo = None if c['mo_none'] else c['match_out']
    me = None if c['me_none'] else c['match_err']
    _set_args(cmd=['s'], cmd_cc=None, timeout=5.0, unchecked=False,
              ignore_output=c['ignore_output'], ignore_out=c['ignore_out'],
              ignore_err=c['ignore_err'], match_out=mo, match_err=me)
    g = _record(c['g_kind'], c['g_exit'], c['g_out'], c['g_err'])
    r = _record(c['r_kind'], c['r_exit'], c['r_out'], c['r_err'])
    setattr(checker, '__GOLDEN', g)
    real = checker.execute
    checker.execute = lambda cmd, fn, to: r
    try:
        try:
            got = checker.check('cand.smt2')
        except Exception as e:
            return (f'check() raised {type(e).__name__}: {e} for golden {g!r} '
                    f'candidate {r!r} match_out={mo!r} match_err={me!r}')
    finally:
        checker.execute = real
    io = c['ignore_output'] or c['ignore_out']
    ie = c['ignore_output'] or c['ignore_err']
    want = S.accept(g.exit, g.out, g.err, r.exit, r.out, r.err, io, ie, mo,
                    me)
    if bool(got) != bool(want):
        return (f'check() = {got!r}, documented rule = {want!r} for golden '
                f'{g!r} candidate {r!r}')
    if c['r_kind'] == 1 and c['g_kind'] == 0 and got:
        return 'timed-out candidate accepted although the golden run finished'
    return None


def make_verdict(m, p_gk, p_rk, p_io):
    def h(g_kind: int, r_kind: int, g_exit: int, r_exit: int, g_out: str,
          g_err: str, r_out: str, r_err: str, ignore_output: bool,
          ignore_out: bool, ignore_err: bool, match_out: str, match_err: str,
          mo_none: bool, me_none: bool):
        c = dict(locals())
        assume(g_kind == p_gk and r_kind == p_rk and ignore_output == p_io)
        for k in ('g_out', 'g_err', 'r_out', 'r_err', 'match_out',
                  'match_err'):
            assume(len(c[k]) <= m)
        if p_gk == 1:
            assume(g_exit == 0 and len(g_out) == 0 and len(g_err) == 0)
        if p_rk == 1:
            assume(r_exit == 0 and len(r_out) == 0 and len(r_err) == 0)
        r = _verdict_body(c)
        if r:
            raise Violation(r)
    return h


# ---------------------------------------------------------------- golden

def _golden_body(c, sym=False):
    from ddsmt import checker, options
    if sym:
        c = dict(c)
        for k in ('match_out', 'match_err', 'g_out', 'g_err'):
            c[k] = Str(c[k])
        for k in ('timeout', 'timeout_cc', 'runtime', 'runtime_cc', 'g_exit'):
            c[k] = Num(c[k])
    mo = None if c['mo_none'] else c['match_out']
    me = None if c['me_none'] else c['match_err']
    to = None if c['to_none'] else c['timeout']
    toc = None if c['toc_none'] else c['timeout_cc']
    cmd = ['s']
    cmd_cc = ['r'] if c['has_cc'] else None
    ns = _set_args(cmd=cmd, cmd_cc=cmd_cc, timeout=to, timeout_cc=toc,
                   infile='in.smt2', unchecked=False, ignore_output=False,
                   ignore_out=False, ignore_err=False, match_out=mo,
                   match_err=me, match_out_cc=None, match_err_cc=None)
    calls = []

    cw = c

    def fake_execute(xcmd, filename, timeout):
        calls.append((xcmd, filename, unwrap(timeout)))
        if xcmd is cmd:
            if cw['g_timed_out']:
                return checker.RunInfo(None, None, None, timeout)
            return checker.RunInfo(cw['g_exit'], cw['g_out'], cw['g_err'],
                                   cw['runtime'])
        return checker.RunInfo(0, '', '', cw['runtime_cc'])

    c = {k: unwrap(v) for k, v in c.items()}
    mo, me, to, toc = unwrap(mo), unwrap(me), unwrap(to), unwrap(toc)

    real = checker.execute
    checker.execute = fake_execute
    exited = None
    try:
        try:
            checker.do_golden_runs()
        except SystemExit as e:
            exited = e.code
        except Skip:
            raise
        except Exception as e:
            return f'do_golden_runs raised {type(e).__name__}: {e}'
    finally:
        checker.execute = real
    # round(x, 2) is within 0.005 of x; the symbolic model of round and the
    # native one may differ by 0.01, so a symbolic counterexample must be off
    # by more than that to be reproducible natively
    tol = 0.0151 if sym else 0.0051
    g_out = None if c['g_timed_out'] else c['g_out']
    g_err = None if c['g_timed_out'] else c['g_err']
    missing = ((mo is not None and mo != ''
                and (g_out is None or mo not in g_out))
               or (me is not None and me != ''
                   and (g_err is None or me not in g_err)))
    if missing:
        if exited != 1:
            return (f'match string missing from the golden output but '
                    f'do_golden_runs did not exit with status 1 '
                    f'(exit={exited!r})')
        return None
    if exited is not None:
        return f'unexpected exit {exited!r}'
    if calls[0] != (cmd, 'in.smt2', to):
        return f'golden run not executed on the input file: {calls!r}'
    if not c['to_none']:
        if unwrap(ns.timeout) != c['timeout']:
            return f'explicit --timeout overwritten: {ns.timeout!r}'
    elif not c['g_timed_out']:
        want = 1.5 * (c['runtime'] + 1)
        if not (abs(unwrap(ns.timeout) - want) <= tol):
            return (f'default time limit {ns.timeout!r} is not 1.5 x (golden '
                    f'runtime + 1) = {want!r}')
    if c['has_cc']:
        if not c['toc_none']:
            if unwrap(ns.timeout_cc) != c['timeout_cc']:
                return f'explicit --timeout-cc overwritten: {ns.timeout_cc!r}'
        else:
            want = 1.5 * (c['runtime_cc'] + 1)
            if not (abs(unwrap(ns.timeout_cc) - want) <= tol):
                return (f'default cross-check time limit {ns.timeout_cc!r} is '
                        f'not 1.5 x (runtime + 1) = {want!r}')
    return None


def make_golden(m, p_cc, p_gto):
    def h(g_exit: int, g_out: str, g_err: str, to_none: bool,
          toc_none: bool, has_cc: bool, g_timed_out: bool, match_out: str,
          match_err: str, mo_none: bool, me_none: bool):
        runtime = fresh_real('runtime')
        runtime_cc = fresh_real('runtime_cc')
        timeout = fresh_real('timeout')
        timeout_cc = fresh_real('timeout_cc')
        c = dict(locals())
        assume(has_cc == p_cc and g_timed_out == p_gto)
        assume(0.0 <= runtime <= 100000.0 and 0.0 <= runtime_cc <= 100000.0)
        assume(timeout > 0.0 and timeout_cc > 0.0)
        if p_gto:
            # a golden run can only time out under an explicit limit
            assume(not to_none)
        for k in ('g_out', 'g_err', 'match_out', 'match_err'):
            assume(len(c[k]) <= m)
        r = _golden_body(c, sym=True)
        if r:
            raise Violation(r)
    return h


# ---------------------------------------------------------------- limits

def _limits_body(c, sym=False):
    from ddsmt import checker
    limits = []
    if sym:
        c = dict(c)
        c['timeout'] = Num(c['timeout'])

    class FakeResource:
        RLIMIT_AS = 9
        RLIMIT_CPU = 0
        RLIM_INFINITY = -1

        @staticmethod
        def prlimit(pid, res, lim):
            limits.append((pid, res, lim))

        @staticmethod
        def setrlimit(res, lim):
            limits.append((None, res, lim))

    memout = None if c['mem_none'] else c['memout']
    _set_args(memout=memout)
    saved = (checker.resource, checker.math)
    checker.resource = FakeResource
    if sym:
        checker.math = ContractMath()
    try:
        checker.limit_resources(c['timeout'], 77 if c['with_pid'] else None)
    finally:
        checker.resource, checker.math = saved
    c = {k: unwrap(v) for k, v in c.items()}
    pid = 77 if c['with_pid'] else None
    cpu = [l for l in limits if l[1] == 0]
    mem = [l for l in limits if l[1] == 9]
    if len(cpu) != 1 or cpu[0][0] != pid:
        return f'CPU limit not applied to the child: {limits!r}'
    soft = cpu[0][2][0]
    if not (soft == int(soft) and soft - 1 < c['timeout'] <= soft):
        return f'RLIMIT_CPU {soft!r} is not ceil({c["timeout"]!r})'
    if memout:
        if len(mem) != 1 or mem[0][0] != pid \
                or mem[0][2][0] != memout * 1024 * 1024:
            return f'RLIMIT_AS not memout MiB: {limits!r}'
    elif mem:
        return f'memory limit applied without --memout: {limits!r}'
    return None


def make_limits():
    def h(memout: int, mem_none: bool, with_pid: bool):
        timeout = fresh_real('timeout')
        assume(0.0 < timeout <= 1000000.0)
        assume(0 <= memout <= 1 << 40)
        r = _limits_body(dict(locals()), sym=True)
        if r:
            raise Violation(r)
    return h


# ---------------------------------------------------- status / argv (aux)

def _status_body(c, sym=False):
    """Exit status of the program (ddsmt.__main__.main) when the golden run
    lacks / contains the configured match string."""
    import contextlib
    import io
    from ddsmt import checker, cli
    import ddsmt.__main__ as M
    if sym:
        c = dict(c)
        c['g_out'] = Str(c['g_out'])
        c['match_out'] = Str(c['match_out'])
        c['g_exit'] = Num(c['g_exit'])
    mo = None if c['mo_none'] else c['match_out']
    _set_args(cmd=['s'], cmd_cc=None, timeout=5.0, unchecked=False,
              ignore_output=False, ignore_out=False, ignore_err=False,
              match_out=mo, match_err=None, profile=False)

    def fake_execute(xcmd, filename, timeout):
        return checker.RunInfo(c['g_exit'], c['g_out'], '', 0.25)

    def fake_main():
        checker.do_golden_runs()

    real = (checker.execute, cli.ddsmt_main)
    checker.execute = fake_execute
    cli.ddsmt_main = fake_main
    try:
        with contextlib.redirect_stdout(io.StringIO()):
            try:
                status = M.main()
            except SystemExit as e:
                status = e.code
    finally:
        checker.execute, cli.ddsmt_main = real
    c = {k: unwrap(v) for k, v in c.items()}
    mo = unwrap(mo)
    missing = mo is not None and mo != '' and mo not in c['g_out']
    if missing and status != 1:
        return (f'the golden output {c["g_out"]!r} lacks the match string '
                f'{mo!r} but the program ends with status {status!r}')
    if not missing and status != 0:
        return f'status {status!r} although the golden run matches'
    return None


def make_status(m):
    def h(g_exit: int, g_out: str, match_out: str, mo_none: bool):
        assume(len(g_out) <= m + 1 and len(match_out) <= m)
        r = _status_body(dict(locals()), sym=True)
        if r:
            raise Violation(r)
    return h


def run_argv_limits():
    """The real option parser keeps explicit limits as given (auxiliary,
    concrete values incl. limits below one second)."""
    import time
    from ddsmt import options, mutators
    t0 = time.time()
    n = 0
    bad = None
    for to in (None, 0.05, 0.5, 0.999, 1.0, 2.5, 100.0):
        for toc in (None, 0.25, 3.0, 'cc-without-limit'):
            for mem in (None, 1, 512):
                argv = []
                if to is not None:
                    argv += ['--timeout', str(to)]
                if toc == 'cc-without-limit':
                    argv += ['-c', 'ref']
                    toc = None
                elif toc is not None:
                    argv += ['-c', 'ref', '--timeout-cc', str(toc)]
                if mem is not None:
                    argv += ['--memout', str(mem)]
                ns = options.parse_options(
                    mutators, argv + ['in.smt2', 'out.smt2', 'solver'])
                n += 1
                got = (ns.timeout, ns.timeout_cc, ns.memout)
                if got != (to, toc, mem) and bad is None:
                    bad = ({'argv': argv},
                           f'{argv!r}: limits read as timeout={got[0]!r}, '
                           f'timeout_cc={got[1]!r}, memout={got[2]!r}')
    return {'status': 'VIOLATED' if bad else 'CONFIRMED',
            'cex': bad[0] if bad else None,
            'exc': {'type': 'Violation', 'msg': bad[1]} if bad else None,
            'paths': n, 'paths_ok': n, 'samples': [], 'solver_checks': 0,
            'solver_seconds': 0.0, 'wall_s': round(time.time() - t0, 2),
            'note': 'concrete enumeration (auxiliary)'}


def run_limits_history():
    """Auxiliary (concrete): the limits of every run are those of *that*
    run - first the golden run without a time limit (the automatic limit is
    not known yet), then candidates with the derived limit; then another
    limit and another --memout."""
    import time
    from ddsmt import checker
    t0 = time.time()
    limits = []

    class FakeResource:
        RLIMIT_AS = 9
        RLIMIT_CPU = 0
        RLIM_INFINITY = -1

        @staticmethod
        def prlimit(pid, res, lim):
            limits.append((pid, res, lim))

        @staticmethod
        def setrlimit(res, lim):
            limits.append((None, res, lim))

    saved = checker.resource
    checker.resource = FakeResource
    bad = None
    n = 0
    try:
        seq = [(None, None, 77), (2.5, None, 78), (2.5, None, None),
               (0.4, 100, 79), (7.0, None, 80), (None, 3, 81)]
        for timeout, memout, pid in seq:
            n += 1
            _set_args(memout=memout)
            del limits[:]
            checker.limit_resources(timeout, pid)
            cpu = [l for l in limits if l[1] == 0]
            mem = [l for l in limits if l[1] == 9]
            want_cpu = [] if not timeout else [
                (pid, 0, (-(-timeout // 1), -(-timeout // 1)))]
            want_mem = [] if not memout else [
                (pid, 9, (memout * 1024 * 1024, -1))]
            if [(p, r, tuple(l)) for p, r, l in cpu] != \
                    [(p, r, (int(a), int(b))) for p, r, (a, b) in want_cpu] \
                    or [(p, r, tuple(l)) for p, r, l in mem] != want_mem:
                if bad is None:
                    bad = ({'call': n},
                           f'call {n} of limit_resources(timeout={timeout}, '
                           f'pid={pid}) with --memout {memout} applied '
                           f'{limits!r}')
    finally:
        checker.resource = saved
    return {'status': 'VIOLATED' if bad else 'CONFIRMED',
            'cex': bad[0] if bad else None,
            'exc': {'type': 'Violation', 'msg': bad[1]} if bad else None,
            'paths': n, 'paths_ok': n, 'samples': [], 'solver_checks': 0,
            'solver_seconds': 0.0, 'wall_s': round(time.time() - t0, 2),
            'note': 'concrete sequence of calls (auxiliary)'}


def partitions(tier):
    validate_round_contract()
    m = bounds(tier)['max_str_len']
    B = (False, True)
    bud = 150 if tier == 'quick' else 800
    parts = [{'name': 'exec', 'fn': make_exec(m), 'budget_s': bud},
             {'name': 'limits', 'fn': make_limits(), 'budget_s': bud}]
    for gk in (0, 1):
        for rk in (0, 1):
            for io in B:
                parts.append({'name': f'verdict_g{gk}_r{rk}_io{int(io)}',
                              'fn': make_verdict(m, gk, rk, io),
                              'budget_s': bud,
                              'bounds': {'max_str_len': m}})
    for cc in B:
        for gto in B:
            parts.append({'name': f'golden_cc{int(cc)}_gto{int(gto)}',
                          'fn': make_golden(m, cc, gto), 'budget_s': bud,
                          'bounds': {'max_str_len': m}})
    parts.append({'name': 'status', 'fn': make_status(m), 'budget_s': bud,
                  'bounds': {'max_str_len': m}})
    parts.append({'name': 'argvlimits', 'kind': 'native',
                  'run': run_argv_limits, 'budget_s': 100})
    parts.append({'name': 'limitshistory', 'kind': 'native',
                  'run': run_limits_history, 'budget_s': 100})
    return parts


def validate_round_contract():
    """The contract stub of round(x, 2) must over-approximate the real one."""
    x = 0.0
    k = 0
    while x < 150001.0:
        r = round(x, 2)
        assert x - 0.005 <= r <= x + 0.005, (x, r)
        x = x * 1.0173 + 0.00037
        k += 1
    return k


def replay(part, cex):
    try:
        if part == 'exec':
            return _exec_body(cex)
        if part == 'limits':
            return _limits_body(cex)
        if part.startswith('verdict'):
            return _verdict_body(cex)
        if part.startswith('golden'):
            return _golden_body(cex)
        if part == 'status':
            return _status_body(cex)
        if part == 'limitshistory':
            r = run_limits_history()
            return r['exc']['msg'] if r['exc'] else None
        if part == 'argvlimits':
            r = run_argv_limits()
            return r['exc']['msg'] if r['exc'] else None
    except Violation as e:
        return str(e)
    except Exception as e:
        return f'{type(e).__name__}: {e}'
    return None
