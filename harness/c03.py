"""C03 - minimisation always terminates: no mutation cycles, no no-ops, no
hanging mutators.

Unbounded termination is not decided here (docs/faq.rst: no ranking function
is known; a claim without a bound belongs to a proof assistant).  Decided:

  chain   the real strategies (hierarchical, ddmin) under *every* oracle of
          the hash-class family (z3 all-SAT over the class verdicts - this
          contains the adversarial commands that accept exactly the members
          of a would-be cycle): the sequence of accepted inputs never
          repeats an input
  pairs   (concrete, bounded exhaustive) on cycle-prone corpus scripts, for
          every proposal p1 of every mutator on every node and every
          proposal p2 on the result: the text after one step differs from
          the start (no no-op) and after two steps differs from both
          (no 2-cycle)
  fuel    every filter/mutations/global_mutations/apply call on the corpus
          stays within a step bound proportional to the square of the input
          size (Node constructions and hash computations are counted)
"""
import time

from harness import strat_common as SC
from harness import c15 as P

ID = 'C03'
LEVEL = 'model_checking'
FUNCTIONS = ['ddsmt.strategy_hierarchical:reduce', 'ddsmt.strategy_ddmin:reduce',
             'ddsmt.mutators_core:Constants', 'ddsmt.mutators_core:SortChildren',
             'ddsmt.mutators_core:ReplaceByVariable',
             'ddsmt.mutators_smtlib:EliminateVariable',
             'ddsmt.mutators_smtlib:InlineDefinedFuns',
             'ddsmt.mutators_smtlib:IntroduceFreshVariable',
             'ddsmt.mutators_smtlib:SimplifySymbolNames',
             'ddsmt.nodes:substitute', 'ddsmt.mutator_utils:apply_simp']
ASSUMPTIONS = [
    'chains longer than two steps are only examined along the runs of the '
    'real strategies under the hash-class oracle family (V classes)',
    'runs with more than 40 accepted candidates are cut off and counted, not '
    'judged',
]
OUTSIDE = ['termination of unbounded chains (no ranking function)',
           'cycles of length > 2 that no strategy run in the explored family '
           'follows', 'inputs outside the corpus']

CYCLE_SCRIPTS = {
    'eq0': '(declare-const x Int)(declare-const y Int)(assert (= x 0))'
           '(assert (> y x))(check-sat)',
    'vars': '(declare-const a Int)(declare-const b Int)(declare-const c Int)'
            '(assert (< (+ a b) c))(check-sat)',
    'bvc': '(declare-const v (_ BitVec 4))(assert (= (bvadd v #b0101) '
           '(_ bv5 4)))(assert (= ((_ zero_extend 2) #b11) #x3))(check-sat)',
    'fun': '(declare-const a Int)(define-fun f ((a Int) (b Int)) Int (+ a b))'
           '(define-fun k () Int 3)(assert (> (f (+ a 1) k) (f a a)))'
           '(check-sat)',
    'let': '(declare-const p Bool)(declare-const q Bool)'
           '(assert (let ((u (and p q))) (or u (not u))))'
           '(assert (not (not (=> p q))))(check-sat)',
    'sym': '(declare-const false1 Bool)(declare-const |ab| Bool)'
           '(declare-const abcd Bool)(assert (or false1 |ab| abcd))(check-sat)',
    'str': '(declare-const s String)(assert (= s "ab""c"))'
           '(assert (str.contains s "b"))(check-sat)',
    'sort': '(declare-const x Int)(assert (= (+ x (* 2 x)) (+ (* 2 x) x)))'
            '(assert (and (> x 0) true))(check-sat)',
    # a defined constant that is an alias of a variable; parameters named
    # like symbols of the arguments
    'alias': '(declare-const a Int)(declare-const x Int)'
             '(define-fun f () Int a)(define-fun g ((x Int) (y Int)) Int '
             '(+ x y))(assert (> a 0))(assert (< f (g (* x 2) x)))(check-sat)',
}


CYCLE_SCRIPTS['recfun'] = ('(declare-const a Int)'
                           '(define-fun f ((x Int)) Int (f x))'
                           '(assert (> (f a) 0))(check-sat)')
CYCLE_SCRIPTS['elim3'] = ('(declare-const x Int)'
                          '(assert (= x (+ (* x 2) 1)))(check-sat)')
# a defined constant whose body also occurs as a term elsewhere
CYCLE_SCRIPTS['defconst'] = ('(declare-const a Int)'
                             '(define-fun z () Int (+ a 1))'
                             '(assert (> (+ a 1) 0))(check-sat)')
# a recursive function introduced with define-fun-rec
CYCLE_SCRIPTS['funrec'] = ('(declare-const a Int)'
                           '(define-fun-rec g ((x Int)) Int '
                           '(ite (< x 1) 0 (g (- x 1))))'
                           '(assert (> (g a) 0))(check-sat)')
# a let binding that shadows a symbol of its own term
CYCLE_SCRIPTS['letshadow'] = ('(declare-const x Int)(declare-fun f (Int) Int)'
                              '(assert (let ((x (+ x 1))) (> (f x) 0)))'
                              '(check-sat)')
# datatype constants (nullary constructors) next to a variable of the datatype
CYCLE_SCRIPTS['dtconst'] = ('(declare-datatypes ((Color 0)) (((red) (green))))'
                            '(declare-const x Color)'
                            '(declare-fun p (Color) Bool)'
                            '(assert (p x))(assert (p red))(check-sat)')
DEPTH3 = ['elim3', 'eq0', 'recfun', 'defconst']   # small: also 3-step chains


class TooSlow(BaseException):
    pass


def _alarm(seconds):
    """Limit on the CPU time of this process (not wall time: the machine
    may be busy with other partitions)."""
    import signal

    def on_alarm(*a):
        raise TooSlow()

    signal.signal(signal.SIGVTALRM, on_alarm)
    signal.setitimer(signal.ITIMER_VIRTUAL, seconds)


def _logging():
    import logging
    from ddsmt import cli
    if not hasattr(logging, 'trace'):
        cli.setup_logging()
    logging.getLogger().setLevel(logging.CRITICAL)


def _norm(t):
    return t


def _proposals(exprs, muts):
    """All (description, result tokens, result exprs) of one step."""
    from ddsmt import nodes, smtlib
    from ddsmt.mutator_utils import apply_simp, Simplification
    smtlib.collect_information(exprs)
    out = []
    for node in list(nodes.dfs(exprs)):
        for cls, m in muts:
            try:
                _alarm(10)
                if hasattr(m, 'filter') and not m.filter(node):
                    continue
                props = []
                if hasattr(m, 'mutations'):
                    props.extend(m.mutations(node))
                if hasattr(m, 'global_mutations'):
                    props.extend(m.global_mutations(node, exprs))
            except TooSlow:
                out.append((f'{cls} on {node.__str__()[:60]}', 'HANG', None))
                continue
            except Exception:
                continue
            finally:
                _alarm(0)
            for p in props:
                try:
                    _alarm(10)
                    res = apply_simp(exprs, Simplification(
                        dict(p.substs), list(p.fresh_vars)))
                except TooSlow:
                    out.append((f'{cls} on {node.__str__()[:60]}', 'HANG',
                                None))
                    continue
                except Exception:
                    continue
                finally:
                    _alarm(0)
                if res is None:
                    continue
                if not isinstance(res, list):
                    res = [res]
                out.append((f'{cls} on {node.__str__()[:60]}',
                            _norm(SC.tokens(res)), res))
    return out


def known_cycle(d1, d2):
    """Region of the open known finding C03-replace-by-variable-eliminate-
    variable: a non-leaf operand T of an equality is replaced by a variable v
    of its sort, and EliminateVariable on that equality puts T back for v."""
    return d1.startswith('ReplaceByVariable on (') \
        and d2.startswith('EliminateVariable on (=')


def run_pairs(name, lo, hi, known=None, stats=None, cap=None):
    from ddsmt import nodeio, nodes, options, mutators
    ns = options.parse_options(mutators, ['in.smt2', 'out.smt2', 'cmd'])
    setattr(options, '__PARSED_ARGS', ns)
    _logging()
    t0 = time.time()
    exprs = list(nodeio.parse_smtlib(CYCLE_SCRIPTS[name]))
    t_orig = _norm(SC.tokens(exprs))
    muts = P.all_mutators()
    first = _proposals(exprs, muts)
    n = 0
    bad = None
    seen2 = {t_orig}
    # cap: at most about that many two-step chains - first steps are then
    # taken at a regular stride over all (node, mutator) positions
    stride = 1
    if cap is not None and len(first) ** 2 > cap:
        stride = -(-len(first) ** 2 // cap)
    if stats is not None:
        stats['first'] = stats.get('first', 0) + len(first)
        stats['first_followed'] = stats.get('first_followed', 0) + \
            len(range(0, len(first), stride))
    for k, (d1, t1, r1) in enumerate(first):
        if t1 == 'HANG':
            if bad is None:
                bad = ({'script': name, 'first': k, 'second': -2},
                       f'"{d1}" does not deliver its proposals within 10 s '
                       f'on {t_orig!r}')
            continue
        if t1 == t_orig and bad is None:
            bad = ({'script': name, 'first': k, 'second': -1},
                   f'no-op: "{d1}" proposes the input itself: {t_orig!r}')
        if not (lo <= k < hi) or k % stride:
            continue
        r1 = nodes.reduplicate(r1)
        for j, (d2, t2, r2) in enumerate(_proposals(r1, muts)):
            n += 1
            if t2 == 'HANG' and bad is None:
                bad = ({'script': name, 'first': k, 'second': j},
                       f'"{d2}" does not deliver its proposals within 10 s '
                       f'on {t1!r}')
            if t2 == t_orig and known is not None and known(d1, d2):
                if stats is not None:
                    stats['known'] = stats.get('known', 0) + 1
            elif t2 == t_orig and bad is None:
                bad = ({'script': name, 'first': k, 'second': j},
                       f'2-cycle: {t_orig!r} --[{d1}]--> {t1!r} --[{d2}]--> '
                       f'back to the start')
            if name in DEPTH3 and t2 not in seen2 and r2 is not None \
                    and bad is None:
                seen2.add(t2)
                r2 = nodes.reduplicate(r2)
                for (d3, t3, r3) in _proposals(r2, muts):
                    n += 1
                    if t3 == t_orig:
                        bad = ({'script': name, 'first': k, 'second': j},
                               f'3-cycle: {t_orig!r} --[{d1}]--> {t1!r} '
                               f'--[{d2}]--> {t2!r} --[{d3}]--> back to the '
                               f'start')
                        break
        if bad:
            break
    return {'status': 'VIOLATED' if bad else 'CONFIRMED',
            'cex': bad[0] if bad else None,
            'exc': {'type': 'Violation', 'msg': bad[1]} if bad else None,
            'paths': n + len(first), 'paths_ok': n + len(first),
            'samples': [{'script': name, 'first_step_proposals': len(first)}],
            'solver_checks': 0, 'solver_seconds': 0.0,
            'wall_s': round(time.time() - t0, 2),
            'note': 'concrete bounded-exhaustive enumeration (auxiliary)'}


def run_pairs_typed(fnames, tier, want=None):
    """Two-step chains on the well-sorted scripts of C16's typed generator
    (every operator family x operand kind)."""
    from harness import c15
    from ddsmt import nodeio
    t0 = time.time()
    n = nscripts = 0
    stats = {}
    bad = None
    for fname in fnames:
        if want is not None and fname != want:
            continue
        ex = c15.typed_script(fname, (3, 5, 2))
        if ex is None:
            continue
        nscripts += 1
        CYCLE_SCRIPTS['_typed'] = nodeio.write_smtlib_to_str(ex)
        try:
            r = run_pairs('_typed', 0, 10 ** 9, known_cycle, stats,
                          cap=3000 if tier == 'quick' else 60000)
        finally:
            CYCLE_SCRIPTS.pop('_typed', None)
        n += r['paths']
        if r['status'] == 'VIOLATED':
            bad = ({'family': fname, **r['cex']}, r['exc']['msg'])
            break
    return {'status': 'VIOLATED' if bad else 'CONFIRMED',
            'cex': bad[0] if bad else None,
            'exc': {'type': 'Violation', 'msg': bad[1]} if bad else None,
            'paths': n, 'paths_ok': n,
            'samples': [{'families': fnames[:3]}],
            'solver_checks': 0, 'solver_seconds': 0.0,
            'queries': {'scripts': nscripts,
                        'first_steps': stats.get('first', 0),
                        'first_steps_followed': stats.get('first_followed', 0),
                        'cycles_in_known_region': stats.get('known', 0)},
            'wall_s': round(time.time() - t0, 2),
            'note': 'concrete bounded-exhaustive enumeration (auxiliary)'}


KNOWN_CYCLE_SCRIPT = ('(declare-const x (_ BitVec 3))'
                      '(declare-const y (_ BitVec 3))'
                      '(assert (= (bvneg x) (bvneg x)))')


def known_cycle_witness():
    CYCLE_SCRIPTS['_known'] = KNOWN_CYCLE_SCRIPT
    try:
        r = run_pairs('_known', 0, 10 ** 9)
    finally:
        CYCLE_SCRIPTS.pop('_known', None)
    return r['exc']['msg'] if r['exc'] else None


def _nest(op, leaf, other, depth):
    t = leaf
    for _ in range(depth):
        t = f'({op} {t} {other})'
    return t


# deeply nested terms over a leaf whose sort ddSMT cannot infer, or can
FUEL_DEEP = [
    ('deep_plus_unknown', '(declare-fun f (Int) Int)(declare-const x Int)'
     '(assert (> ' + _nest('+', '(f x)', '1', 26) + ' 0))'),
    ('deep_times_known', '(declare-const x Int)(assert (> '
     + _nest('*', 'x', '2', 26) + ' 0))'),
    ('deep_bvadd_unknown', '(declare-fun g ((_ BitVec 4)) (_ BitVec 4))'
     '(declare-const v (_ BitVec 4))(assert (= '
     + _nest('bvadd', '(g v)', 'v', 22) + ' v))'),
    ('deep_ite', '(declare-const p Bool)(declare-fun f (Int) Int)'
     '(declare-const x Int)(assert (> '
     + _nest('ite p', '(f x)', '0', 22) + ' 0))'),
    ('deep_let', '(declare-const x Int)(assert '
     + ''.join(f'(let ((v{k} (+ x {k}))) ' for k in range(14))
     + '(> v13 v0)' + ')' * 14 + ')'),
]


def selfgrow_script(text, steps=6):
    """A mutator that can be applied again and again, enlarging the input
    every time, never lets a run end (a command that accepts exactly these
    inputs exists).  Greedy search: per mutator, follow the proposal that
    yields the largest input; ``steps`` strict enlargements in a row are a
    violation (legitimate enlarging rewrites - inlining, substitution of
    variables or let-bound symbols, bit-width reduction - are exhausted
    after at most the nesting depth / number of symbols / log2 of the
    width)."""
    from ddsmt import nodeio, nodes, smtlib
    from ddsmt.mutator_utils import apply_simp, Simplification
    exprs0 = list(nodeio.parse_smtlib(text))
    n = 0
    for cls, m in P.all_mutators():
        exprs = exprs0
        size = len(SC.tokens(exprs).split(' '))
        grown = 0
        trail = []
        old_ids = None
        while grown < steps:
            smtlib.collect_information(exprs)
            best = None
            for node in list(nodes.dfs(exprs)):
                # from the second step on only nodes the previous step
                # created count: enlarging *what was just inserted* is what
                # can go on for ever (enlarging other, old places is bounded
                # by their number)
                if old_ids is not None and node.id in old_ids:
                    continue
                try:
                    _alarm(10)
                    if hasattr(m, 'filter') and not m.filter(node):
                        continue
                    props = []
                    if hasattr(m, 'mutations'):
                        props.extend(m.mutations(node))
                    if hasattr(m, 'global_mutations'):
                        props.extend(m.global_mutations(node, exprs))
                    for p in props:
                        n += 1
                        r = apply_simp(exprs, Simplification(
                            dict(p.substs), list(p.fresh_vars)))
                        if r is None:
                            continue
                        r = r if isinstance(r, list) else [r]
                        sz = len(SC.tokens(r).split(' '))
                        if sz > size and (best is None or sz > best[0]):
                            best = (sz, r, node.__str__()[:50])
                except Exception:
                    continue
                finally:
                    _alarm(0)
            if best is None:
                break
            old_ids = {x.id for x in nodes.dfs(exprs)}
            size, exprs = best[0], best[1]
            trail.append(best[2])
            grown += 1
        if grown >= steps:
            return n, (f'{cls} can be applied {steps} times in a row, each '
                       f'time enlarging the input (now {size} tokens): '
                       f'{SC.tokens(exprs)[:300]!r}; nodes: {trail[:3]!r}')
    return n, None


def run_selfgrow():
    ns_ = None
    from ddsmt import options, mutators
    ns_ = options.parse_options(mutators, ['in.smt2', 'out.smt2', 'cmd'])
    setattr(options, '__PARSED_ARGS', ns_)
    _logging()
    t0 = time.time()
    total = 0
    bad = None
    for name, text in list(CYCLE_SCRIPTS.items()) + \
            [(f'corpus{k}', t) for k, t in enumerate(P.CORPUS)]:
        n, r = selfgrow_script(text)
        total += n
        if r and bad is None:
            bad = ({'script': name}, f'{name}: {r}')
    return {'status': 'VIOLATED' if bad else 'CONFIRMED',
            'cex': bad[0] if bad else None,
            'exc': {'type': 'Violation', 'msg': bad[1]} if bad else None,
            'paths': total, 'paths_ok': total, 'samples': [],
            'solver_checks': 0, 'solver_seconds': 0.0,
            'wall_s': round(time.time() - t0, 2),
            'note': 'concrete greedy search (auxiliary)'}


def run_fuel():
    """Step bound for every mutator call on the corpus."""
    import ddsmt.nodes as N
    from ddsmt import nodeio, nodes, smtlib, options, mutators
    ns = options.parse_options(mutators, ['in.smt2', 'out.smt2', 'cmd'])
    setattr(options, '__PARSED_ARGS', ns)
    _logging()
    t0 = time.time()
    count = [0]
    real_init = N.Node.__init__

    def counting_init(self, *a, **k):
        count[0] += 1
        if count[0] > limit[0]:
            raise RuntimeError('step bound exceeded')
        real_init(self, *a, **k)

    limit = [10 ** 9]
    N.Node.__init__ = counting_init
    # sort inference recurses without building nodes: count its calls too
    real_aux = smtlib._get_sort_aux

    def counting_aux(node):
        count[0] += 1
        if count[0] > limit[0]:
            raise RuntimeError('step bound exceeded')
        return real_aux(node)

    smtlib._get_sort_aux = counting_aux
    bad = None
    calls = 0
    worst = (0, '')
    try:
        for name, text in list(CYCLE_SCRIPTS.items()) + FUEL_DEEP + \
                [(f'corpus{k}', t) for k, t in enumerate(P.CORPUS)]:
            exprs = list(nodeio.parse_smtlib(text))
            size = nodes.count_nodes(exprs)
            smtlib.collect_information(exprs)
            for node in list(nodes.dfs(exprs)):
                if bad is not None:
                    break
                for cls, m in P.all_mutators():
                    count[0] = 0
                    limit[0] = 64 * (size + 1) ** 2
                    t1 = time.process_time()
                    _alarm(10)
                    try:
                        if hasattr(m, 'filter') and not m.filter(node):
                            continue
                        props = []
                        if hasattr(m, 'mutations'):
                            props.extend(m.mutations(node))
                        if hasattr(m, 'global_mutations'):
                            props.extend(m.global_mutations(node, exprs))
                        from ddsmt.mutator_utils import apply_simp, \
                            Simplification
                        for p in props:
                            apply_simp(exprs, Simplification(
                                dict(p.substs), list(p.fresh_vars)))
                    except RuntimeError as e:
                        if 'step bound' in str(e) and bad is None:
                            bad = ({'script': name, 'mutator': cls,
                                    'node': node.__str__()[:80]},
                                   f'{cls} on {node.__str__()[:80]} in '
                                   f'{name} exceeds {limit[0]} node '
                                   f'constructions (input size {size})')
                    except TooSlow:
                        if bad is None:
                            bad = ({'script': name, 'mutator': cls,
                                    'node': node.__str__()[:80]},
                                   f'{cls} on {node.__str__()[:80]} in '
                                   f'{name} did not finish within 10 s')
                    except Exception:
                        pass
                    finally:
                        _alarm(0)
                    calls += 1
                    if count[0] > worst[0]:
                        worst = (count[0], f'{cls} on {name}')
                    if time.process_time() - t1 > 5 and bad is None:
                        bad = ({'script': name, 'mutator': cls},
                               f'{cls} needs more than 5 s on {name}')
    finally:
        N.Node.__init__ = real_init
        smtlib._get_sort_aux = real_aux
    return {'status': 'VIOLATED' if bad else 'CONFIRMED',
            'cex': bad[0] if bad else None,
            'exc': {'type': 'Violation', 'msg': bad[1]} if bad else None,
            'paths': calls, 'paths_ok': calls,
            'samples': [{'most_node_constructions': worst[0],
                         'by': worst[1]}],
            'solver_checks': 0, 'solver_seconds': 0.0,
            'wall_s': round(time.time() - t0, 2),
            'note': 'concrete enumeration (auxiliary)'}


# ------------------------------------------------------------ chain (z3)

def auto_keys(text, n=8):
    """Key tokens of a script for the required-tokens oracle: its first n
    distinct tokens that are neither parentheses nor command names."""
    import re
    out = []
    for t in re.findall(r'[^\s()]+', text):
        if t in out or t.startswith(('declare-', 'define-', 'set-',
                                     'check-sat', 'assert')):
            continue
        out.append(t)
    return out[:n]


def chain_once(vec, strategy, name, V, oracle='hash0'):
    from vlib.stubs.strat import Decider
    saved = SC.SCRIPTS.get('_c03')
    SC.SCRIPTS['_c03'] = CYCLE_SCRIPTS[name]
    SC.MUTSETS['_all'] = [c for c, _ in P.all_mutators()]
    if oracle in ('req', 'grow'):
        # the classic adversary: accepts whatever still contains the chosen
        # tokens (one bit per key token)
        SC.KEYS['_c03'] = auto_keys(CYCLE_SCRIPTS[name], V)
        d = Decider(V, replay=list(vec))
    else:
        d = Decider(0, replay=list(vec), reserved=V)
    env = SC.setup(d, strategy, 1, V, '_c03', '_all', oracle=oracle,
                   maxwrites=40, norm_fresh=False)
    try:
        try:
            SC.run_strategy(env, strategy)
        except SC.Runaway:
            # cut off after 40 accepted simplifications: fine while the
            # input shrinks, but an input that keeps *growing* under accepted
            # simplifications is a run that never ends
            n0 = len(env.orig.split(' '))
            sizes = [len(w.split(' ')) for w in env.writes]
            if sizes and sizes[-1] >= 2 * n0 and \
                    all(b >= a for a, b in zip(sizes[-10:], sizes[-9:])):
                return (f'{strategy}: after {len(sizes)} accepted '
                        f'simplifications the input has grown from {n0} to '
                        f'{sizes[-1]} tokens and is still growing: '
                        f'{env.writes[-1][:300]!r}'), d.read
            return 'skip', d.read
    finally:
        env.restore()
    seen = [env.orig]
    for k, w in enumerate(env.writes):
        if w in seen:
            return (f'{strategy}: accepted input #{k + 1} was already '
                    f'visited: {w!r} (chain of {len(env.writes)} accepted '
                    f'inputs; a command accepting exactly these loops '
                    f'forever)'), d.read
        seen.append(w)
    return None, d.read


def make_chain(strategy, name, tier, oracle='hash0'):
    V = 8 if tier == 'quick' else 11
    if oracle in ('req', 'grow'):
        V = len(auto_keys(CYCLE_SCRIPTS[name], 8 if tier == 'quick' else 10))

    def once(vec):
        return chain_once(vec, strategy, name, V, oracle)

    def run():
        from vlib.engine import explore_choices
        return explore_choices(once, V,
                               budget_s=170 if tier == 'quick' else 850)
    return run


def bounds(tier):
    return {'hash_classes': 8 if tier == 'quick' else 11,
            'scripts': sorted(CYCLE_SCRIPTS), 'chain_steps_pairs': 2}


def partitions(tier):
    parts = []
    for name in CYCLE_SCRIPTS:
        for st in ('hierarchical', 'ddmin', 'hybrid'):
            parts.append({'name': f'chain_{st}_{name}', 'kind': 'choices',
                          'run': make_chain(st, name, tier),
                          'budget_s': 170 if tier == 'quick' else 850,
                          'bounds': {'strategy': st, 'script': name}})
            if 'define-fun' in CYCLE_SCRIPTS[name] or 'let' in \
                    CYCLE_SCRIPTS[name]:
                parts.append({'name': f'chaingrow_{st}_{name}',
                              'kind': 'choices',
                              'run': make_chain(st, name, tier, 'grow'),
                              'budget_s': 170 if tier == 'quick' else 850,
                              'bounds': {'strategy': st, 'script': name,
                                         'oracle': 'required tokens, never '
                                                   'shrinking'}})
            parts.append({'name': f'chainreq_{st}_{name}', 'kind': 'choices',
                          'run': make_chain(st, name, tier, 'req'),
                          'budget_s': 170 if tier == 'quick' else 850,
                          'bounds': {'strategy': st, 'script': name,
                                     'oracle': 'required tokens'}})
        for lo in range(0, 400, 50):
            parts.append({'name': f'pairs_{name}_{lo}', 'kind': 'native',
                          'run': (lambda name=name, lo=lo:
                                  run_pairs(name, lo, lo + 50, known_cycle)),
                          'budget_s': 600})
    from harness import c16
    fams = list(c16.FAMS)
    nch = 16
    for k in range(nch):
        chunk = fams[k::nch]
        parts.append({'name': f'tpairs_{k}', 'kind': 'native',
                      'run': (lambda chunk=chunk:
                              run_pairs_typed(chunk, tier)),
                      'budget_s': 900, 'bounds': {'families': len(chunk)}})
    parts.append({'name': 'fuel', 'kind': 'native', 'run': run_fuel,
                  'budget_s': 600})
    parts.append({'name': 'selfgrow', 'kind': 'native', 'run': run_selfgrow,
                  'budget_s': 600})
    return parts


def replay(part, cex):
    import os
    tier = os.environ.get('VERIF_TIER_REPLAY', 'quick')
    try:
        if part.startswith('chainreq') or part.startswith('chaingrow'):
            kind, st, name = part.split('_')
            V = len(auto_keys(CYCLE_SCRIPTS[name],
                              8 if tier == 'quick' else 10))
            r, _ = chain_once(cex['bits'], st, name, V, kind[5:])
            return None if r in (None, 'skip') else r
        if part.startswith('chain'):
            _, st, name = part.split('_')
            r, _ = chain_once(cex['bits'], st, name,
                              8 if tier == 'quick' else 11)
            return None if r in (None, 'skip') else r
        if part == 'known_rbv_elim':
            return known_cycle_witness()
        if part.startswith('tpairs'):
            r = run_pairs_typed([cex['family']], tier)
            return r['exc']['msg'] if r['exc'] else None
        if part.startswith('pairs'):
            _, name, lo = part.split('_')
            r = run_pairs(name, int(lo), int(lo) + 50, known_cycle)
            return r['exc']['msg'] if r['exc'] else None
        if part == 'selfgrow':
            texts = dict(CYCLE_SCRIPTS)
            texts.update({f'corpus{k}': t for k, t in enumerate(P.CORPUS)})
            from ddsmt import options, mutators
            setattr(options, '__PARSED_ARGS', options.parse_options(
                mutators, ['in.smt2', 'out.smt2', 'cmd']))
            _logging()
            return selfgrow_script(texts[cex['script']])[1]
        if part == 'fuel':
            r = run_fuel()
            return r['exc']['msg'] if r['exc'] else None
    except Exception as e:
        return f'{type(e).__name__}: {e}'
    return None
