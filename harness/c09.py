"""C09 - a candidate is accepted iff it matches the golden run as documented.

E1 harnesses over the real ``ddsmt.checker``:
  rule    matches_golden(...) == spec.accept(...)     (all 10 inputs symbolic)
  wiring  check(filename) == spec for main and cross-check command with the
          right golden record, option and stream (execute stubbed, every
          option and every outcome symbolic)
  invoke  execute(): argv is cmd + [file], --unchecked runs nothing;
          tmpfiles: candidate file carries the input file's extension
"""
import argparse
import copy

from vlib.engine import assume, Violation
from vlib.ref import spec_checker as S

ID = 'C09'
LEVEL = 'model_checking'
FUNCTIONS = ['ddsmt.checker:matches_golden', 'ddsmt.checker:check',
             'ddsmt.checker:execute', 'ddsmt.checker:check_exprs',
             'ddsmt.tmpfiles:init', 'ddsmt.tmpfiles:get_tmp_filename']
ASSUMPTIONS = [
    'an empty match string counts as "no match string configured"',
    'checker.execute is replaced by a stub returning symbolic outcomes in the '
    'wiring harness; subprocess.Popen, resource and tempfile are replaced by '
    'recording fakes in the invoke harness (no real process is started)',
    'stdout/stderr of finished runs are strings (time-outs: see C10)',
]
OUTSIDE = ['strings longer than the bound (exit codes are unbounded ints)',
           'behaviour of a real subprocess']

_PRISTINE = None


def _pristine():
    global _PRISTINE
    if _PRISTINE is None:
        from ddsmt import options, mutators
        _PRISTINE = options.parse_options(mutators,
                                          ['in.smt2', 'out.smt2', 'cmd'])
    return _PRISTINE


def _set_args(**kw):
    from ddsmt import options
    ns = argparse.Namespace(**dict(vars(_pristine())))
    for k, v in kw.items():
        assert hasattr(ns, k), k
        setattr(ns, k, v)
    setattr(options, '__PARSED_ARGS', ns)
    return ns


def bounds(tier):
    return {'max_str_len': 1 if tier == 'quick' else 2}


# ---------------------------------------------------------------- rule

def make_rule(maxlen, pin_io, pin_ie):
    def h(g_exit: int, g_out: str, g_err: str, r_exit: int, r_out: str,
          r_err: str, ignore_out: bool, ignore_err: bool, match_out: str,
          match_err: str, mo_none: bool, me_none: bool):
        from ddsmt import checker
        assume(ignore_out == pin_io and ignore_err == pin_ie)
        for s in (g_out, g_err, r_out, r_err, match_out, match_err):
            assume(len(s) <= maxlen)
        mo = None if mo_none else match_out
        me = None if me_none else match_err
        got = checker.matches_golden(
            checker.RunInfo(g_exit, g_out, g_err, 0.5),
            checker.RunInfo(r_exit, r_out, r_err, 0.5),
            ignore_out, ignore_err, mo, me)
        want = S.accept(g_exit, g_out, g_err, r_exit, r_out, r_err,
                        ignore_out, ignore_err, mo, me)
        if bool(got) != bool(want):
            raise Violation('matches_golden differs from documented rule')
    return h


def replay_rule(c):
    from ddsmt import checker
    mo = None if c['mo_none'] else c['match_out']
    me = None if c['me_none'] else c['match_err']
    got = checker.matches_golden(
        checker.RunInfo(c['g_exit'], c['g_out'], c['g_err'], 0.5),
        checker.RunInfo(c['r_exit'], c['r_out'], c['r_err'], 0.5),
        c['ignore_out'], c['ignore_err'], mo, me)
    want = S.accept(c['g_exit'], c['g_out'], c['g_err'], c['r_exit'],
                    c['r_out'], c['r_err'], c['ignore_out'], c['ignore_err'],
                    mo, me)
    if bool(got) != bool(want):
        return f'matches_golden={got!r} documented rule={want!r} for {c!r}'
    return None


# -------------------------------------------------------------- wiring

def _wiring_body(c, maxlen=None):
    """c: mapping of all inputs (symbolic in the harness, concrete in replay)."""
    from ddsmt import checker
    mo = None if c['mo_none'] else c['match_out']
    me = None if c['me_none'] else c['match_err']
    moc = None if c['moc_none'] else c['match_out_cc']
    mec = None if c['mec_none'] else c['match_err_cc']
    cmd = ['solver', '--opt']
    cmd_cc = ['ref', '--x'] if c['has_cc'] else None
    _set_args(cmd=cmd, cmd_cc=cmd_cc, timeout=11.0, timeout_cc=22.0,
              ignore_output=c['ignore_output'], ignore_out=c['ignore_out'],
              ignore_err=c['ignore_err'], match_out=mo, match_err=me,
              ignore_output_cc=c['ignore_output_cc'], match_out_cc=moc,
              match_err_cc=mec, unchecked=False)
    setattr(checker, '__GOLDEN',
            checker.RunInfo(c['g_exit'], c['g_out'], c['g_err'], 1.0))
    setattr(checker, '__GOLDEN_CC',
            checker.RunInfo(c['gc_exit'], c['gc_out'], c['gc_err'], 1.0))
    calls = []

    def fake_execute(xcmd, filename, timeout):
        calls.append((xcmd, filename, timeout))
        if xcmd is cmd:
            return checker.RunInfo(c['r_exit'], c['r_out'], c['r_err'], 0.1)
        assert xcmd is cmd_cc
        return checker.RunInfo(c['rc_exit'], c['rc_out'], c['rc_err'], 0.1)

    real = checker.execute
    checker.execute = fake_execute
    try:
        got = checker.check('cand.smt2')
    finally:
        checker.execute = real
    io = c['ignore_output'] or c['ignore_out']
    ie = c['ignore_output'] or c['ignore_err']
    want = S.accept(c['g_exit'], c['g_out'], c['g_err'], c['r_exit'],
                    c['r_out'], c['r_err'], io, ie, mo, me)
    if c['has_cc']:
        want = want and S.accept(
            c['gc_exit'], c['gc_out'], c['gc_err'], c['rc_exit'],
            c['rc_out'], c['rc_err'], c['ignore_output_cc'],
            c['ignore_output_cc'], moc, mec)
    if bool(got) != bool(want):
        return f'check() = {got!r}, documented rule = {want!r}'
    if not calls or calls[0][0] is not cmd or calls[0][1] != 'cand.smt2' \
            or calls[0][2] != 11.0:
        return f'main command not executed as configured: {calls!r}'
    for cl in calls[1:]:
        if cl[0] is not cmd_cc or cl[1] != 'cand.smt2' or cl[2] != 22.0:
            return f'cross check not executed as configured: {calls!r}'
    if len(calls) > (2 if c['has_cc'] else 1):
        return f'too many executions: {calls!r}'
    if want and c['has_cc'] and len(calls) != 2:
        return 'accepted without running the cross-check command'
    return None


def make_wiring(maxlen, p_io, p_iout, p_ierr, p_cc, p_mon=None, p_men=None,
                p_cn=None):
    def h(g_exit: int, g_out: str, g_err: str, r_exit: int, r_out: str,
          r_err: str, gc_exit: int, gc_out: str, gc_err: str, rc_exit: int,
          rc_out: str, rc_err: str, ignore_output: bool, ignore_out: bool,
          ignore_err: bool, ignore_output_cc: bool, has_cc: bool,
          match_out: str, match_err: str, match_out_cc: str,
          match_err_cc: str, mo_none: bool, me_none: bool, moc_none: bool,
          mec_none: bool):
        c = dict(locals())
        assume(ignore_output == p_io and ignore_out == p_iout
               and ignore_err == p_ierr and has_cc == p_cc)
        if p_mon is not None:
            assume(mo_none == p_mon and me_none == p_men)
        if p_cn is not None:
            assume(moc_none == p_cn[0] and mec_none == p_cn[1])
        for k in ('g_out', 'g_err', 'r_out', 'r_err', 'gc_out', 'gc_err',
                  'rc_out', 'rc_err', 'match_out', 'match_err',
                  'match_out_cc', 'match_err_cc'):
            assume(len(c[k]) <= maxlen)
        if not p_cc:
            # irrelevant inputs are pinned to keep the tree small
            assume(gc_exit == 0 and rc_exit == 0 and len(gc_out) == 0
                   and len(gc_err) == 0 and len(rc_out) == 0
                   and len(rc_err) == 0 and len(match_out_cc) == 0
                   and len(match_err_cc) == 0 and moc_none and mec_none
                   and not ignore_output_cc)
        r = _wiring_body(c)
        if r:
            raise Violation(r)
    return h


# -------------------------------------------------------------- invoke

class _Bytes:
    def __init__(self, s):
        self.s = s

    def decode(self):
        return self.s


def _invoke_body(c):
    import os
    from ddsmt import checker, tmpfiles
    popens = []
    limits = []

    class FakePopen:
        def __init__(self, args, stdout=None, stderr=None, preexec_fn=None):
            self.args = args
            self.pid = 4242
            self.returncode = None
            self.preexec_fn = preexec_fn
            self.sinks = (stdout, stderr)
            popens.append(self)

        def communicate(self, timeout=None):
            # like the real Popen: only piped streams are handed back
            self.returncode = c['rc']
            return (_Bytes(c['out']) if self.sinks[0] == -1 else None,
                    _Bytes(c['err']) if self.sinks[1] == -1 else None)

        def kill(self):
            pass

    class FakeSubprocess:
        PIPE = -1
        STDOUT = -2
        DEVNULL = -3
        Popen = FakePopen

        class TimeoutExpired(Exception):
            pass

    class FakeResource:
        RLIMIT_AS = 9
        RLIMIT_CPU = 0
        RLIM_INFINITY = -1

        @staticmethod
        def prlimit(pid, res, lim):
            limits.append((pid, res, lim))

        @staticmethod
        def setrlimit(res, lim):
            limits.append((None, res, lim))

    class FakeTmpDir:
        def __init__(self, prefix=None):
            self.name = '/tmp/' + (prefix or '') + 'q1w2e3'

    class FakeTempfile:
        TemporaryDirectory = FakeTmpDir

    cmd = [c['a0'], c['a1']][:c['ncmd']]
    orig_cmd = list(cmd)
    ig = c.get('ig', 0)
    _set_args(cmd=cmd, infile=c['infile'], unchecked=c['unchecked'],
              memout=None, timeout=3.0, ignore_output=(ig == 1),
              ignore_out=(ig == 2), ignore_err=(ig == 3))
    saved = (checker.subprocess, checker.resource, tmpfiles.tempfile)
    checker.subprocess = FakeSubprocess
    checker.resource = FakeResource
    tmpfiles.tempfile = FakeTempfile
    try:
        tmpfiles.init()
        fname = tmpfiles.get_tmp_filename()
        ri = checker.execute(cmd, fname, 3.0)
    finally:
        checker.subprocess, checker.resource, tmpfiles.tempfile = saved
    ext = S.extension(c['infile'])
    if not fname.startswith('/tmp/ddsmt-q1w2e3/'):
        return f'candidate file {fname!r} is not inside the temp directory'
    if not fname.endswith(ext) or S.extension(fname) != ext:
        return (f'candidate file {fname!r} does not carry the extension '
                f'{ext!r} of the input file {c["infile"]!r}')
    if c['unchecked']:
        if popens:
            return '--unchecked started a process'
        g = ri
        if not checker.matches_golden(g, ri, False, False, None, None):
            return '--unchecked result does not match itself'
        return None
    if len(popens) != 1:
        return f'{len(popens)} processes started'
    if list(popens[0].args) != orig_cmd + [fname]:
        return f'argv {popens[0].args!r} != cmd + [file] {orig_cmd + [fname]!r}'
    if ri.exit != c['rc'] or ri.out != c['out'] or ri.err != c['err']:
        return f'outcome not reported faithfully: {ri!r}'
    return None


def make_invoke(maxlen, L, p_unchecked):
    def h(a0: str, a1: str, ncmd: int, infile: str, unchecked: bool, rc: int,
          out: str, err: str, ig: int):
        c = dict(locals())
        # which output is ignored by the comparison (the record of the run
        # is complete all the same: the cross check and the golden record
        # use it)
        assume(0 <= ig <= 3)
        assume(unchecked == p_unchecked)
        assume(1 <= ncmd <= 2)
        assume(len(a0) <= maxlen and len(a1) <= maxlen)
        assume(len(infile) == L)
        assume(len(out) <= maxlen and len(err) <= maxlen)
        r = _invoke_body(c)
        if r:
            raise Violation(r)
    return h


def _unchecked_accepts(c):
    """With --unchecked every candidate is accepted without running anything
    (golden record is produced by the same short-cut)."""
    from ddsmt import checker
    started = []

    class NoProc:
        PIPE = -1

        class TimeoutExpired(Exception):
            pass

        @staticmethod
        def Popen(*a, **k):
            started.append(a)
            raise AssertionError('process started under --unchecked')

    _set_args(cmd=['s'], cmd_cc=['r'] if c['has_cc'] else None,
              unchecked=True, ignore_output=c['ignore_output'],
              ignore_out=c['ignore_out'], ignore_err=c['ignore_err'],
              ignore_output_cc=c['ignore_output_cc'], match_out=None,
              match_err=None, match_out_cc=None, match_err_cc=None,
              timeout=1.0, timeout_cc=1.0)
    saved = checker.subprocess
    checker.subprocess = NoProc
    try:
        setattr(checker, '__GOLDEN', checker.execute(['s'], 'in', 1.0))
        setattr(checker, '__GOLDEN_CC', checker.execute(['r'], 'in', 1.0))
        got = checker.check('cand.smt2')
    finally:
        checker.subprocess = saved
    if not got:
        return '--unchecked rejected a candidate'
    if started:
        return '--unchecked started a process'
    return None


def make_unchecked():
    def h(has_cc: bool, ignore_output: bool, ignore_out: bool,
          ignore_err: bool, ignore_output_cc: bool):
        r = _unchecked_accepts(dict(locals()))
        if r:
            raise Violation(r)
    return h


def run_e2_rule():
    """E2: the comparison function is translated from its current source
    (vlib/py2smt.py) into a z3 formula over strings of *any* length, optional
    streams (time-out records) and optional exit codes, and proved equivalent
    to the documented rule; it is also proved that no input makes it raise."""
    import time
    import z3
    from ddsmt import checker
    from vlib import py2smt as P
    t0 = time.time()
    golden = P.Record(exit=P.OptInt('g_exit'), out=P.OptStr('g_out'),
                      err=P.OptStr('g_err'), runtime=None)
    run = P.Record(exit=P.OptInt('r_exit'), out=P.OptStr('r_out'),
                   err=P.OptStr('r_err'), runtime=None)
    io, ie = z3.Bool('ignore_out'), z3.Bool('ignore_err')
    mo, me = P.OptStr('match_out'), P.OptStr('match_err')
    env = {'golden': golden, 'run': run, 'ignore_out': io, 'ignore_err': ie,
           'match_out': mo, 'match_err': me}
    try:
        impl, errs = P.translate(checker.matches_golden, env)
    except P.Unsupported as e:
        return {'status': 'UNKNOWN', 'cex': None, 'paths': 0, 'paths_ok': 0,
                'samples': [], 'solver_checks': 0, 'solver_seconds': 0.0,
                'engine_error': f'matches_golden left the translatable '
                                f'subset: {e}',
                'wall_s': round(time.time() - t0, 2)}

    def stream_ok(ign, match, g, r):
        return z3.Or(ign, z3.If(match.truthy(),
                                z3.And(z3.Not(r.none),
                                       z3.Contains(r.s, match.s)),
                                P._eq(g, r)))

    gf, rf = golden.fields, run.fields
    spec = z3.And(P._eq(rf['exit'], gf['exit']),
                  stream_ok(io, mo, gf['out'], rf['out']),
                  stream_ok(ie, me, gf['err'], rf['err']))
    results = []
    cex = None
    msg = None
    for name, goal in (('equivalence with the documented rule',
                        impl != spec),
                       ('never raises (membership test on None)',
                        z3.Or(*errs) if errs else z3.BoolVal(False))):
        sol = z3.Solver()
        sol.set('timeout', 120000)
        sol.add(goal)
        r = str(sol.check())
        results.append({'obligation': name, 'result': r})
        if r == 'sat' and cex is None:
            m = sol.model()

            def val(o):
                if isinstance(o, P.OptStr):
                    return None if z3.is_true(m.eval(o.none, True)) else \
                        m.eval(o.s, True).as_string()
                if isinstance(o, P.OptInt):
                    return None if z3.is_true(m.eval(o.none, True)) else \
                        m.eval(o.i, True).as_long()
                return bool(z3.is_true(m.eval(o, True)))
            cex = {'g_exit': val(golden.fields['exit']),
                   'g_out': val(golden.fields['out']),
                   'g_err': val(golden.fields['err']),
                   'r_exit': val(run.fields['exit']),
                   'r_out': val(run.fields['out']),
                   'r_err': val(run.fields['err']),
                   'ignore_out': val(io), 'ignore_err': val(ie),
                   'match_out': val(mo), 'match_err': val(me)}
            msg = f'{name}: violated'
    unknown = [x for x in results if x['result'] not in ('sat', 'unsat')]
    status = 'VIOLATED' if cex else ('UNKNOWN' if unknown else 'CONFIRMED')
    return {'status': status, 'cex': cex,
            'exc': {'type': 'Violation', 'msg': msg} if cex else None,
            'paths': 2, 'paths_ok': 2 - len(unknown),
            'samples': results, 'solver_checks': 2,
            'solver_seconds': round(time.time() - t0, 2),
            'engine_error': str(unknown) if unknown else None,
            'queries': {'formula_size': len(str(impl))},
            'wall_s': round(time.time() - t0, 2)}


def run_e2_wiring():
    """E2: checker.check translated from its current source: which options
    reach which stream of which run.  Unbounded strings; the two execute()
    calls return arbitrary records."""
    import time
    import z3
    from ddsmt import checker
    from vlib import py2smt as P
    t0 = time.time()

    def rec(pfx):
        return P.Record(exit=P.OptInt(pfx + 'exit'), out=P.OptStr(pfx + 'out'),
                        err=P.OptStr(pfx + 'err'), runtime=None)
    g, gc, r, rc = rec('g_'), rec('gc_'), rec('r_'), rec('rc_')
    B = {k: z3.Bool(k) for k in ('ignore_output', 'ignore_out', 'ignore_err',
                                 'ignore_output_cc')}
    M = {k: P.OptStr(k) for k in ('match_out', 'match_err', 'match_out_cc',
                                  'match_err_cc')}
    cmd = P.OptList('cmd')
    cmd_cc = P.OptList('cmd_cc')
    args = P.Record(cmd=cmd, cmd_cc=cmd_cc, timeout=None, timeout_cc=None,
                    **B, **M)
    calls = []

    def execute(ev, a, guard):
        calls.append((a[0], guard))
        return r if a[0] is cmd else (rc if a[0] is cmd_cc else None)

    env = {'filename': None, '__args__': args, '__GOLDEN': g,
           '__GOLDEN_CC': gc,
           '__calls__': {'execute': execute,
                         'matches_golden': P.inliner(checker.matches_golden)}}
    base = {'status': 'UNKNOWN', 'cex': None, 'paths': 0, 'paths_ok': 0,
            'samples': [], 'solver_checks': 0, 'solver_seconds': 0.0}
    try:
        impl, errs = P.translate(checker.check, env)
    except P.Unsupported as e:
        return dict(base, engine_error=f'check() left the translatable '
                    f'subset: {e}', wall_s=round(time.time() - t0, 2))

    def stream_ok(ign, match, gs, rs):
        return z3.Or(ign, z3.If(match.truthy(),
                                z3.And(z3.Not(rs.none),
                                       z3.Contains(rs.s, match.s)),
                                P._eq(gs, rs)))

    def accept(gr, rr, io, ie, mo, me):
        return z3.And(P._eq(rr.fields['exit'], gr.fields['exit']),
                      stream_ok(io, mo, gr.fields['out'], rr.fields['out']),
                      stream_ok(ie, me, gr.fields['err'], rr.fields['err']))
    spec = z3.And(
        accept(g, r, z3.Or(B['ignore_output'], B['ignore_out']),
               z3.Or(B['ignore_output'], B['ignore_err']), M['match_out'],
               M['match_err']),
        z3.Implies(cmd_cc.nonempty,
                   accept(gc, rc, B['ignore_output_cc'],
                          B['ignore_output_cc'], M['match_out_cc'],
                          M['match_err_cc'])))
    results = []
    cex = None
    msg = None
    for name, goal in (('equivalence with the documented rule', impl != spec),
                       ('never raises', z3.Or(*errs) if errs
                        else z3.BoolVal(False))):
        sol = z3.Solver()
        sol.set('timeout', 120000)
        sol.add(goal)
        rr_ = str(sol.check())
        results.append({'obligation': name, 'result': rr_})
        if rr_ == 'sat' and cex is None:
            m = sol.model()

            def sval(o):
                return None if z3.is_true(m.eval(o.none, True)) else \
                    m.eval(o.s, True).as_string()

            def ival(o):
                return None if z3.is_true(m.eval(o.none, True)) else \
                    m.eval(o.i, True).as_long()
            cex = {'has_cc': bool(z3.is_true(m.eval(cmd_cc.nonempty, True)))}
            for k, v in B.items():
                cex[k] = bool(z3.is_true(m.eval(v, True)))
            for k, short in (('match_out', 'mo'), ('match_err', 'me'),
                             ('match_out_cc', 'moc'), ('match_err_cc', 'mec')):
                v = sval(M[k])
                cex[short + '_none'] = v is None
                cex[k] = v or ''
            for pfx, rcd in (('g_', g), ('gc_', gc), ('r_', r), ('rc_', rc)):
                cex[pfx + 'exit'] = ival(rcd.fields['exit'])
                cex[pfx + 'out'] = sval(rcd.fields['out'])
                cex[pfx + 'err'] = sval(rcd.fields['err'])
            msg = (f'check(): {name} violated for {cex!r}')
    unknown = [x for x in results if x['result'] not in ('sat', 'unsat')]
    if not any(c[0] is cmd for c in calls):
        unknown.append({'obligation': 'the command is executed',
                        'result': 'execute(options.args().cmd, ..) not found'})
    status = 'VIOLATED' if cex else ('UNKNOWN' if unknown else 'CONFIRMED')
    return {'status': status, 'cex': cex,
            'exc': {'type': 'Violation', 'msg': msg} if cex else None,
            'paths': 2, 'paths_ok': 2 - len(unknown), 'samples': results,
            'solver_checks': 2,
            'solver_seconds': round(time.time() - t0, 2),
            'engine_error': str(unknown) if unknown else None,
            'queries': {'formula_size': len(str(impl)),
                        'execute_calls': len(calls)},
            'wall_s': round(time.time() - t0, 2)}


def replay_e2(c):
    from ddsmt import checker
    g = checker.RunInfo(c['g_exit'], c['g_out'], c['g_err'], 1.0)
    r = checker.RunInfo(c['r_exit'], c['r_out'], c['r_err'], 1.0)
    try:
        got = checker.matches_golden(g, r, c['ignore_out'], c['ignore_err'],
                                     c['match_out'], c['match_err'])
    except Exception as e:
        return f'matches_golden raised {type(e).__name__}: {e} for {c!r}'
    want = S.accept(c['g_exit'], c['g_out'], c['g_err'], c['r_exit'],
                    c['r_out'], c['r_err'], c['ignore_out'], c['ignore_err'],
                    c['match_out'], c['match_err'])
    if bool(got) != bool(want):
        return f'matches_golden={got!r}, documented rule={want!r} for {c!r}'
    return None


# ---------------------------------------------------------------- argv

ARGV_FLAGS = [('--ignore-output', 'ignore_output'),
              ('--ignore-out', 'ignore_out'), ('--ignore-err', 'ignore_err'),
              ('--ignore-output-cc', 'ignore_output_cc'),
              ('--unchecked', 'unchecked')]
ARGV_VALUES = [('--match-out', 'match_out', ' sat'),
               ('--match-err', 'match_err', 'err: '),
               ('--match-out-cc', 'match_out_cc', '\tx y '),
               ('--match-err-cc', 'match_err_cc', 'mec'),
               ('--timeout', 'timeout', 2.5), ('--timeout-cc', 'timeout_cc', 7.0),
               ('-c', 'cmd_cc', 'ref --x')]


def argv_once(bits):
    """The real option parser on one combination of the comparison options:
    every option sets exactly its own field (E3: the combination is the
    choice vector)."""
    from ddsmt import options, mutators
    argv = []
    want = {}
    k = 0
    for flag, field in ARGV_FLAGS:
        on = bool(bits[k])
        k += 1
        if on:
            argv.append(flag)
        want[field] = on
    for flag, field, val in ARGV_VALUES:
        on = bool(bits[k])
        k += 1
        if on:
            argv += [flag, str(val)]
        want[field] = (val if field != 'cmd_cc' else val.split()) if on \
            else None
    argv += ['in.smt2', 'out.smt2', 'solver', '--opt']
    try:
        ns = options.parse_options(mutators, argv)
    except SystemExit as e:
        return f'parse_options({argv!r}) exited with {e.code!r}'
    for field, w in want.items():
        got = getattr(ns, field)
        if got != w and not (w is None and not got):
            return (f'{argv!r}: option field {field} = {got!r}, but the '
                    f'command line says {w!r}')
    if ns.cmd != ['solver', '--opt'] or ns.infile != 'in.smt2' \
            or ns.outfile != 'out.smt2':
        return f'{argv!r}: positional arguments read as {ns.cmd!r}'
    return None


def run_argv():
    from vlib.engine import explore_choices
    n = len(ARGV_FLAGS) + len(ARGV_VALUES)
    return explore_choices(
        lambda vec: (argv_once(vec), set(range(n))), n, budget_s=250)


def partitions(tier):
    m = bounds(tier)['max_str_len']
    parts = []
    B = (False, True)
    for io in B:
        for ie in B:
            parts.append({'name': f'rule_io{int(io)}_ie{int(ie)}',
                          'fn': make_rule(m + 1, io, ie),
                          'budget_s': 150 if tier == 'quick' else 800,
                          'bounds': {'max_str_len': m + 1}})
    for a in B:
        for b in B:
            for c in B:
                for d in B:
                    subs = [(None, None)]
                    if d:
                        subs = [(x, y) for x in B for y in B]
                    for (x, y) in subs:
                        sfx = '' if x is None else f'_m{int(x)}{int(y)}'
                        cns = [None]
                        if d and tier != 'quick':
                            cns = [(u, v) for u in B for v in B]
                        for cn in cns:
                            sf2 = '' if cn is None else \
                                f'_c{int(cn[0])}{int(cn[1])}'
                            parts.append({
                                'name': f'wiring_{int(a)}{int(b)}{int(c)}'
                                        f'{int(d)}{sfx}{sf2}',
                                'fn': make_wiring(m, a, b, c, d, x, y, cn),
                                'budget_s': 170 if tier == 'quick' else 850,
                                'bounds': {'max_str_len': m}})
    for L in range(0, m + 4):
        for u in B:
            parts.append({'name': f'invoke_len{L}_u{int(u)}',
                          'fn': make_invoke(m, L, u),
                          'budget_s': 150 if tier == 'quick' else 800,
                          'bounds': {'infile_len': L, 'max_str_len': m}})
    parts.append({'name': 'e2rule', 'kind': 'E2', 'run': run_e2_rule,
                  'budget_s': 300,
                  'bounds': {'strings': 'unbounded', 'streams': 'optional'}})
    parts.append({'name': 'e2wiring', 'kind': 'E2', 'run': run_e2_wiring,
                  'budget_s': 300,
                  'bounds': {'strings': 'unbounded', 'streams': 'optional'}})
    parts.append({'name': 'unchecked', 'fn': make_unchecked(),
                  'budget_s': 100})
    parts.append({'name': 'argv', 'kind': 'choices', 'run': run_argv,
                  'budget_s': 300,
                  'bounds': {'options': len(ARGV_FLAGS) + len(ARGV_VALUES)}})
    return parts


def replay(part, cex):
    try:
        if part == 'e2rule':
            return replay_e2(cex)
        if part == 'e2wiring':
            return _wiring_body(cex)
        if part.startswith('rule'):
            return replay_rule(cex)
        if part.startswith('wiring'):
            return _wiring_body(cex)
        if part.startswith('invoke'):
            return _invoke_body(cex)
        if part == 'unchecked':
            return _unchecked_accepts(cex)
        if part == 'argv':
            return argv_once(cex['bits'])
    except Exception as e:
        return f'{type(e).__name__}: {e}'
    return None
