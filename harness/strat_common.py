"""Shared driver for the strategy harnesses: runs the real
strategy_ddmin.reduce / strategy_hierarchical.reduce (or cli.ddsmt_main) in
the nondeterministic environment of vlib/stubs/strat.py and records what the
properties talk about."""
import argparse

from vlib.stubs.strat import (Decider, Oracle, RequiredTokensOracle,
                              ConsistentNumeralsOracle, SameShapeOracle,
                              NoShrinkOracle,
                              HashClassOracle, FakeMP,
                              tokens)

SCRIPTS = {
    # two competing erasures + nested terms
    'a': '(declare-const x Int)(assert (> x 1))(assert (< x (+ x 2)))(check-sat)',
    # global substitution (variable elimination) and let handling
    'b': '(declare-const x Int)(declare-const y Int)(assert (= x y))'
         '(assert (let ((u (+ y 1))) (> u x)))(check-sat)',
    # many top-level commands: ddmin runs through _check_par with -j 2
    'c': '(declare-const p Bool)(assert p)(assert (not p))(assert (or p p))'
         '(assert (and p p))(assert (= p p))(assert (xor p p))(check-sat)',
    # fresh variable insertion, constants
    'd': '(set-logic QF_LIA)(declare-const x Int)(assert (> (* 2 (+ x 1)) 7))'
         '(check-sat)',
}

SCRIPTS['e'] = ('(declare-const x Int)(assert (> (+ x 7) 7))'
                '(assert (< x (* 7 7)))(check-sat)')

SCRIPTS['f'] = ('(declare-const ca Int)(declare-const b Int)'
                '(assert (> ca b))(check-sat)')

SCRIPTS['g'] = ('(set-logic QF_BV)(declare-const x (_ BitVec 4))'
                '(declare-const y (_ BitVec 4))(declare-const p Bool)'
                '(declare-const q Bool)'
                '(assert (xor (not (= x #b0110)) true))'
                '(assert (= #b1 (bvor (bvcomp x y) ((_ extract 0 0) y))))'
                '(assert (not (and p (xor q true))))(check-sat)')

SCRIPTS['h'] = ('(declare-fun f0 (Bool) Bool)(declare-const p Bool)' + ''.join(
    f'(assert (f{i} p))' for i in range(10)) + '(check-sat)')

# a pickle of more than 1 KiB; same-length replacements (x -> 0) far from its
# beginning
SCRIPTS['k'] = ('(declare-const x Int)' + ''.join(
    f'(assert (> (+ x {i}) x))' for i in range(10, 22)) + '(check-sat)')

# datatypes with several nullary constructors (default constants of a
# datatype sort come from a table filled while collecting information)
SCRIPTS['m'] = ('(declare-datatype Color ((red) (green) (blue) (black) '
                '(mix (fst Color) (snd Color))))(declare-const c Color)'
                '(declare-const d Color)(assert (= c (mix d d)))'
                '(assert (distinct c d))(check-sat)')

# competing simplifications of the smtlib group (annotation removal, quoted
# symbols that need no quotes)
SCRIPTS['n'] = ('(set-logic QF_LIA)(declare-const |x| Int)'
                '(assert (! (> |x| 0) :named a1))(check-sat)')

# a stray closing parenthesis (skipped by the parser)
SCRIPTS['p'] = ('(declare-const x Int))(assert (> x 1))(assert (< x 5))'
                '(check-sat)')

# several variables of one sort next to a defined constant of that sort
SCRIPTS['q'] = ('(declare-const a Int)(declare-const b Int)'
                '(declare-const c Int)(define-fun k () Int 3)'
                '(assert (> (+ a b) (* c k)))(check-sat)')

# function symbols next to several variables of their result sort; children
# of equal size
SCRIPTS['r'] = ('(declare-fun f (Int) Int)(declare-fun g (Int Int) Int)'
                '(declare-const a Int)(declare-const b Int)'
                '(declare-const c Int)'
                '(assert (> (+ (f a) (g b c)) (* (g a b) (f c))))'
                '(assert (= (+ a b) (+ c a)))(check-sat)')

# a pickle of more than 4 KiB
SCRIPTS['k4'] = ('(declare-const x Int)' + ''.join(
    f'(assert (> (+ x {i}) x))' for i in range(10, 50)) + '(check-sat)')

MUTSETS = {
    'consts': ['Constants'],
    'late': ['SimplifySymbolNames', 'ReplaceByVariable'],
    # mutators whose proposals are reorderings / renamings (nothing shrinks
    # first): order-dependence shows
    'sort': ['SortChildren', 'ReplaceByVariable', 'SimplifySymbolNames'],
    # a late (last-pass only) mutator together with main ones: successes in
    # the last pass, after which main-mutator candidates become acceptable
    'latemix': ['SimplifySymbolNames', 'SimplifyQuotedSymbols', 'EraseNode'],
    'arith': ['ArithmeticSimplifyConstant'],
    'fresh': ['Constants', 'IntroduceFreshVariable'],
    'bvbool': ['BVDoubleNegation', 'BVElimBVComp', 'BVTransformToBool',
               'BoolDoubleNegation', 'BoolDeMorgan', 'BoolXORRemoveConstant',
               'BoolXOREliminateBinary', 'BVNormalizeConstants',
               'BVSimplifyConstants', 'BVExtractConstants'],
    'erase': ['EraseNode'],
    # binary reduction next to node removal on an input with many commands:
    # what the ddmin phase of hybrid rejects, the last hierarchical pass has
    # to offer again
    'binred': ['BinaryReduction', 'EraseNode'],
    'core': ['EraseNode', 'ReplaceByChild', 'Constants'],
    'elim': ['EliminateVariable', 'LetSubstitution'],
    'mix': ['EraseNode', 'ReplaceByChild', 'EliminateVariable',
            'LetSubstitution', 'LetElimination', 'IntroduceFreshVariable',
            'BoolDoubleNegation'],
}


class Runaway(BaseException):
    """More accepted candidates than the bound: the run is cut off."""


class Env:
    pass


_PRISTINE = None


def _namespace(strategy, jobs, mutset, outfile, pretty=False, wrap=False):
    global _PRISTINE
    from ddsmt import options, mutators
    if _PRISTINE is None:
        _PRISTINE = options.parse_options(mutators,
                                          ['in.smt2', 'out.smt2', 'cmd'])
    ns = argparse.Namespace(**dict(vars(_PRISTINE)))
    enabled = set(MUTSETS[mutset]) if mutset != 'all' else {
        cls for g, (mod, reg) in mutators.get_all_mutators().items()
        for cls in reg}
    for g, (mod, reg) in mutators.get_all_mutators().items():
        setattr(ns, f'mutators_{g}', True)
        for cls, opt in reg.items():
            setattr(ns, f'mutator_{opt.replace("-", "_")}', cls in enabled)
    ns.strategy = strategy
    ns.jobs = jobs
    ns.outfile = outfile
    ns.pretty_print = pretty
    ns.wrap_lines = wrap
    ns.verbosity = 0
    ns.quietness = 3
    setattr(options, '__PARSED_ARGS', ns)
    return ns


KEYS = {
    'a': ['x', '>', '<', '+', '2', 'check-sat'],
    'b': ['x', 'y', 'u', '=', 'let', '>'],
    'c': ['not', 'or', 'and', '=', 'xor', 'check-sat'],
    'd': ['x', '*', '+', '>', '7', 'set-logic'],
    'e': ['x', '>', '<', '+', '*', 'check-sat'],
    'f': ['ca', 'a', 'b', '>', 'check-sat', 'Int'],
    'g': ['x', 'y', 'p', 'q', 'xor', 'bvcomp'],
    'h': ['f1', 'f4', 'f8', 'f9', 'check-sat', 'declare-const'],
    'k': ['x', '12', '17', '21', '>', '+'],
    'k4': ['x', '12', '27', '48', '>', '+'],
    'm': ['c', 'd', 'mix', 'distinct', '=', 'check-sat'],
    'n': ['|x|', '!', ':named', 'a1', '>', 'set-logic'],
    'p': ['x', '>', '<', '1', '5', 'check-sat'],
    'q': ['a', 'b', 'c', 'k', '>', '*'],
    'r': ['f', 'g', 'a', 'b', '+', '*'],
}


import re as _re
_FRESH = _re.compile(r'x[0-9]+__fresh')


def setup(decider, strategy, jobs, nbits, script, mutset, maxwrites=12,
          prefetch=4, oracle='first', norm_fresh=False):
    """Install the environment; returns Env with .restore()."""
    import logging
    from ddsmt import (checker, nodeio, strategy_ddmin, strategy_hierarchical,
                       progress, cli, nodes)
    env = Env()
    env.ns = _namespace(strategy, jobs, mutset, 'out.smt2')
    if not hasattr(logging, 'chat'):
        cli.setup_logging()
    logging.getLogger().setLevel(logging.CRITICAL)
    env.exprs = list(nodeio.parse_smtlib(SCRIPTS[script]))
    env.orig = tokens(env.exprs)
    if oracle == 'first':
        env.oracle = Oracle(decider, nbits, always_accept=[env.orig])
    elif oracle.startswith('hash'):
        env.oracle = HashClassOracle(decider, nbits, always_accept=[env.orig],
                                     salt=int(oracle[4:] or 0))
    elif oracle == 'same':
        env.oracle = ConsistentNumeralsOracle(decider, KEYS[script],
                                              env.orig)
    elif oracle == 'shape':
        env.oracle = SameShapeOracle(decider, KEYS[script], env.orig)
    elif oracle == 'grow':
        env.oracle = NoShrinkOracle(decider, KEYS[script], env.orig)
    else:
        env.oracle = RequiredTokensOracle(decider, KEYS[script], env.orig)
    env.mp = FakeMP(decider, prefetch)
    env.writes = []          # tokens of every write of the output file
    env.derivs = []          # (base tokens, result tokens) of every apply_simp
    env.events = []          # interleaved: ('check', t, v) / ('write', t)
    env.dup_ids = []
    saved = {}

    def patch(mod, name, val):
        saved[(mod, name)] = getattr(mod, name)
        setattr(mod, name, val)

    def norm(t):
        # known finding C18-fresh-name-node-id: fresh symbols carry node ids
        return _FRESH.sub('x#__fresh', t) if norm_fresh else t

    env.norm = norm

    def check_exprs(exprs):
        t = norm(tokens(exprs))
        v = env.oracle.verdict(t)
        env.oracle.calls.append((t, v))
        env.events.append(('check', t, v))
        return v

    real_write = nodeio.write_smtlib_to_file
    env.filewrites = []      # what the real writer left in a real file
    env.workdir = None

    def write(filename, exprs):
        t = norm(tokens(exprs))
        env.writes.append(t)
        env.events.append(('write', t))
        # the real writer on a real file next to the recording: the file
        # must then hold exactly this input
        import os
        import tempfile
        if env.workdir is None:
            env.workdir = tempfile.mkdtemp(prefix='verif-out-')
        path = os.path.join(env.workdir, 'out.smt2')
        try:
            real_write(path, exprs)
            with open(path) as f:
                env.filewrites.append(norm(tokens(list(
                    nodeio.parse_smtlib(f.read())))))
        except Exception as e:
            env.filewrites.append(f'{type(e).__name__}: {e}')
        if len(env.writes) > maxwrites:
            raise Runaway()

    real_apply = strategy_ddmin.apply_simp

    def apply_simp(exprs, simp):
        res = real_apply(exprs, simp)
        if res is not None:
            r = res if isinstance(res, list) else [res]
            env.derivs.append((tokens(exprs), tokens(r)))
            env.events.append(('deriv', tokens(exprs), tokens(r)))
        return res

    def distinct_ids(exprs, where):
        ids = [n.id for n in nodes.dfs(exprs)]
        if len(ids) != len(set(ids)):
            env.dup_ids.append(where)

    real_tg = strategy_ddmin.TaskGenerator.__init__

    def tg_init(self, exprs, *a, **k):
        distinct_ids(exprs, 'TaskGenerator')
        return real_tg(self, exprs, *a, **k)

    real_prod = strategy_hierarchical.Producer.__init__

    def prod_init(self, muts, flag, original):
        distinct_ids(original, 'Producer')
        return real_prod(self, muts, flag, original)

    patch(checker, 'check_exprs', check_exprs)
    patch(nodeio, 'write_smtlib_to_file', write)
    patch(strategy_ddmin, 'apply_simp', apply_simp)
    patch(strategy_hierarchical, 'apply_simp', apply_simp)
    patch(strategy_ddmin, 'multiprocessing', env.mp)
    patch(strategy_hierarchical, 'multiprocessing', env.mp)
    patch(strategy_ddmin.TaskGenerator, '__init__', tg_init)
    patch(strategy_hierarchical.Producer, '__init__', prod_init)
    patch(progress, 'start', lambda *a: None)
    patch(progress, 'update', lambda *a: None)
    patch(progress, 'finish', lambda *a: None)

    def restore():
        for (mod, name), val in saved.items():
            setattr(mod, name, val)
        setattr(strategy_ddmin, '__abort_flag', None)
        if env.workdir is not None:
            import shutil
            shutil.rmtree(env.workdir, ignore_errors=True)
            env.workdir = None

    env.restore = restore
    return env


def run_strategy(env, strategy):
    """Runs the real reduce(); returns final exprs or raises Runaway."""
    from ddsmt import strategy_ddmin, strategy_hierarchical
    exprs = env.exprs
    if strategy in ('ddmin', 'hybrid'):
        exprs, _ = strategy_ddmin.reduce(exprs)
    if strategy in ('hierarchical', 'hybrid'):
        exprs, _ = strategy_hierarchical.reduce(exprs)
    return exprs


def check_chain(env, final):
    """C05: the writes form a chain of accepted, one-step derived inputs."""
    prev = env.orig
    accepted = {env.orig}
    derived = set()
    n = 0
    for ev in env.events:
        if ev[0] == 'check':
            if ev[2]:
                accepted.add(ev[1])
        elif ev[0] == 'deriv':
            derived.add((ev[1], ev[2]))
        else:
            n += 1
            w = ev[1]
            if w not in accepted:
                return (f'output file written with a candidate that the '
                        f'command had not accepted: write #{n} = {w!r}')
            if (prev, w) not in derived:
                bases = sorted({b for b, r in derived if r == w})
                return (f'write #{n} is not derived from its predecessor by '
                        f'one simplification: predecessor {prev!r}, written '
                        f'{w!r}; it was derived from {bases!r}')
            prev = w
    for k, (w, fw) in enumerate(zip(env.writes, env.filewrites)):
        if w != fw:
            return (f'after write #{k + 1} the output file does not hold the '
                    f'accepted input {w!r} but {fw!r}')
    if final is not None:
        ft = tokens(final)
        if ft != prev:
            return (f'returned input {ft!r} is not the last element of the '
                    f'chain {prev!r}')
    if env.dup_ids:
        return (f'working input with repeated node ids given to '
                f'{env.dup_ids[0]}')
    return None


def check_fixed_point(env, final):
    """C02: no proposal of any enabled mutator on the final input is accepted
    by the same oracle (independent enumeration: own BFS, own loops)."""
    import copy
    from ddsmt import strategy_hierarchical, smtlib
    from ddsmt.mutator_utils import apply_simp, Simplification
    from ddsmt import mutators as _mutators
    # as a second run of ddSMT on the written output would see it: parsed
    # anew, so every position has its own identity whatever the strategy's
    # bookkeeping of node ids did
    from ddsmt import nodeio
    final = list(nodeio.parse_smtlib(nodeio.write_smtlib_to_str(list(final))))
    smtlib.collect_information(final)
    # every enabled mutator, taken from the registries (not from the pass
    # lists of the strategy under test)
    # fresh instances built from the classes themselves (an instance that
    # went through the run may carry state, e.g. an 'ident' restriction)
    from ddsmt import options as _options
    muts = []
    # the class tables are asked from the theory modules again (a table
    # handed out earlier may have been shared with - and edited by - the
    # strategy under test), and the modules are also found by name
    import importlib
    import pkgutil
    import ddsmt as _ddsmt
    mods = [mod for g, (mod, reg) in _mutators.get_all_mutators().items()]
    for mi in pkgutil.iter_modules(_ddsmt.__path__):
        if mi.name.startswith('mutators_'):
            m_ = importlib.import_module('ddsmt.' + mi.name)
            if m_ not in mods and hasattr(m_, 'get_mutators'):
                mods.append(m_)
    for mod in mods:
        for cls, opt in mod.get_mutators().items():
            if getattr(_options.args(), 'mutator_' + opt.replace('-', '_'),
                       True):
                muts.append(getattr(mod, cls)())
    level = list(final)
    order = []
    while level:
        nxt = []
        for n in level:
            order.append(n)
            if not n.is_leaf():
                nxt.extend(n.data)
        level = nxt
    ft = env.norm(tokens(final))
    for node in order:
        for m in muts:
            try:
                if hasattr(m, 'filter') and not m.filter(node):
                    continue
                props = []
                if hasattr(m, 'mutations'):
                    props.extend(m.mutations(node))
                if hasattr(m, 'global_mutations'):
                    props.extend(m.global_mutations(node, final))
            except Exception:
                continue
            for p in props:
                try:
                    res = apply_simp(final, Simplification(
                        dict(p.substs), list(p.fresh_vars)))
                except Exception:
                    continue
                if res is None:
                    continue
                t = env.norm(tokens(res if isinstance(res, list) else [res]))
                if env.oracle.verdict(t):
                    return (f'the run ended with {ft!r}, but "{m}" on '
                            f'{node.__str__()!r} proposes {t!r}, which the '
                            f'command accepts'
                            + ('' if any(c[0] == t for c in env.oracle.calls)
                               else ' (never tested)'))
    return None
