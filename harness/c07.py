"""C07 - rendering and re-parsing is the identity, in every output mode.

E1: symbolic input text -> real parser -> each real renderer (compact writer
for the command, default, --pretty-print, --wrap-lines) -> the rendered text
is read back by the reference reader (token sequence must equal that of the
input, comments modulo their line terminator) and by the real parser (must
be structurally equal to the tree in memory).  A second harness drives the
line wrapping with tokens of symbolic *length* around the wrap column.
"""
import argparse

from vlib.engine import assume, Violation
from vlib.ref import refreader as R
from harness.c08 import in_class, CLASSES, _empty_partition, to_list

ID = 'C07'
LEVEL = 'model_checking'
FUNCTIONS = ['ddsmt.nodeio:write_smtlib', 'ddsmt.nodeio:__write_smtlib',
             'ddsmt.nodeio:__write_smtlib_pretty',
             'ddsmt.nodeio:write_smtlib_for_checking',
             'ddsmt.nodeio:write_smtlib_to_str', 'ddsmt.nodeio:parse_smtlib',
             'ddsmt.nodes:Node.__str__']
ASSUMPTIONS = [
    'inputs are the trees the real parser returns for balanced texts '
    '(C08 relates them to the standard)',
    'builtin open() inside nodeio is replaced by an in-memory file for the '
    'compact writer',
    'hash shim mode S',
    'comment leaves are compared modulo their trailing LF (the writers put '
    'comments on their own line)',
]
OUTSIDE = ['input texts longer than the bound (the wrap harness covers long '
           'lines with tokens of symbolic length instead)']

MODES = ['check', 'default', 'pretty', 'wrap']
_PRISTINE = None


def _set_mode(mode):
    global _PRISTINE
    from ddsmt import options
    if _PRISTINE is None:
        from ddsmt import mutators
        _PRISTINE = options.parse_options(mutators,
                                          ['in.smt2', 'out.smt2', 'cmd'])
    ns = argparse.Namespace(**dict(vars(_PRISTINE)))
    ns.pretty_print = mode in ('pretty', 'prettywrap')
    ns.wrap_lines = mode in ('wrap', 'prettywrap')
    setattr(options, '__PARSED_ARGS', ns)


class _MemFile:
    def __init__(self):
        self.parts = []

    def write(self, s):
        self.parts.append(s)

    def __enter__(self):
        return self

    def __exit__(self, *a):
        return False

    def getvalue(self):
        return ''.join(self.parts)


def render(exprs, mode, pieces=False):
    """Rendered text (or, with ``pieces``, the list of strings written)."""
    from ddsmt import nodeio
    _set_mode(mode)
    mem = _MemFile()
    if mode == 'check':
        nodeio.open = lambda name, m='r': mem
        try:
            nodeio.write_smtlib_for_checking('cand.smt2', exprs)
        finally:
            del nodeio.open
    elif pieces:
        nodeio.write_smtlib(mem, exprs)
    else:
        return nodeio.write_smtlib_to_str(exprs)
    return mem.parts if pieces else mem.getvalue()


def check_text(text, mode):
    from ddsmt import nodeio
    ref = R.read(text)
    if isinstance(ref, str):
        return 'skip'
    exprs = list(nodeio.parse_smtlib(text))
    out = render(exprs, mode)
    want = R.tokens(R.norm_tree(ref))
    back = R.read(out)
    if isinstance(back, str):
        return f'rendering is not readable ({back}): {out!r}'
    got = R.tokens(R.norm_tree(back))
    if got != want:
        return f'token sequence changed: {out!r}'
    again = list(nodeio.parse_smtlib(out))
    if [R.norm_tree([to_list(n)]) for n in again] != \
            [R.norm_tree([to_list(n)]) for n in exprs]:
        return f're-parsing gives a different tree: {out!r}'
    return None


def make(L, pins, mode):
    def h(text: str):
        assume(len(text) == L)
        for i, c in enumerate(pins):
            assume(in_class(text[i], c))
        r = check_text(text, mode)
        assume(r != 'skip')
        if r is not None:
            raise Violation(r)
    return h


def check_width(text, w):
    """The line-breaking writer with an arbitrary small width."""
    from ddsmt import nodeio
    ref = R.read(text)
    if isinstance(ref, str):
        return 'skip'
    exprs = list(nodeio.parse_smtlib(text))
    mem = _MemFile()
    writer = getattr(nodeio, '__write_smtlib')
    for e in exprs:
        writer(mem, e, w)
        mem.write('\n')
    out = mem.getvalue()
    back = R.read(out)
    if isinstance(back, str):
        return f'width {w}: rendering is not readable ({back}): {out!r}'
    if R.tokens(R.norm_tree(back)) != R.tokens(R.norm_tree(ref)):
        return f'width {w}: token sequence changed: {out!r}'
    return None


def make_width(L, pins):
    def h(text: str, w: int):
        assume(len(text) == L)
        assume(0 <= w <= 6)
        for i, c in enumerate(pins):
            assume(in_class(text[i], c))
        r = check_width(text, w)
        assume(r != 'skip')
        if r is not None:
            raise Violation(r)
    return h


class _Rec:
    def __init__(self):
        self.parts = []

    def write(self, s):
        self.parts.append(s)

    def getvalue(self):
        return ''.join(self.parts)


def ctx_tree(pad, inner):
    """A long line: concrete context around the nodes parsed from a short
    symbolic text; ``pad`` slides them across the wrap column."""
    from ddsmt.nodes import Node
    return Node(Node('a' * pad), *inner, Node('b' * 30), Node('cc-dd'),
                Node('"x  y\tz"'), Node('|q\n q|'),
                Node(Node('e'), Node(';k\n'), Node('f')), Node('g' * 90),
                Node('h'))


def check_ctx(pad, text):
    from ddsmt import nodeio
    ref = R.read(text)
    if isinstance(ref, str):
        return 'skip'
    inner = list(nodeio.parse_smtlib(text))
    node = ctx_tree(pad, inner)
    recs = []
    for mode in ('default', 'wrap'):
        _set_mode(mode)
        r = _Rec()
        nodeio.write_smtlib(r, [node])
        recs.append(r)
    a, b = recs[0].parts, recs[1].parts
    same = len(a) == len(b)
    if same:
        for x, y in zip(a, b):
            if not (x is y or x == y or (x == ' ' and y == '\n  ')):
                same = False
                break
    if not same:
        # compare token-wise (slow path, only for other wrap styles);
        # otherwise wrapping only turned separators into line breaks: same
        # tokens as the default rendering (whose fidelity the 'default'
        # partitions establish)
        d = R.read(recs[0].getvalue())
        w = R.read(recs[1].getvalue())
        if isinstance(w, str) or isinstance(d, str) or \
                R.tokens(R.norm_tree(w)) != R.tokens(R.norm_tree(d)):
            return (f'--wrap-lines output has other tokens than the default '
                    f'output: {recs[1].getvalue()!r}')
    # both options together, on the long line and on a flat (all-leaf) one
    from ddsmt.nodes import Node
    flat = Node(Node('a' * pad), *[x for x in inner if x.is_leaf()],
                Node('b' * 30), Node('cc-dd'), Node('"x  y\tz"'),
                Node('|q\n q|'), Node('g' * 90), Node('h'))
    # and a flat line whose tokens contain no line break at all
    flat2 = Node(Node('a' * pad), *[x for x in inner if x.is_leaf()],
                 Node('b' * 30), Node('cc-dd'), Node('"x  y\tz"'),
                 Node('|q  q|'), Node(':k'), Node('"l o n g   s t r"'),
                 Node('h'))
    for tree in (node, flat, flat2):
        prs = []
        for mode in ('pretty', 'prettywrap'):
            _set_mode(mode)
            r = _Rec()
            nodeio.write_smtlib(r, [tree])
            prs.append(r)
        a, b = prs[0].parts, prs[1].parts
        same = len(a) == len(b)
        if same:
            for x, y in zip(a, b):
                if not (x is y or x == y):
                    same = False
                    break
        if same:
            continue        # identical to --pretty-print alone ('pretty_*')
        _set_mode('default')
        r = _Rec()
        nodeio.write_smtlib(r, [tree])
        d = R.read(r.getvalue())
        w = R.read(prs[1].getvalue())
        if isinstance(w, str) or isinstance(d, str) or \
                R.tokens(R.norm_tree(w)) != R.tokens(R.norm_tree(d)):
            return (f'--pretty-print --wrap-lines output has other tokens '
                    f'than the default output: {prs[1].getvalue()!r}')
    return None


def make_ctx(pad, L):
    def h(text: str):
        assume(len(text) == L)
        r = check_ctx(pad, text)
        assume(r != 'skip')
        if r is not None:
            raise Violation(r)
    return h


def check_tree(forest, leaves, mode, symbolic=False):
    """Renderers on a forest given as shapes + leaf tokens."""
    from ddsmt import nodeio
    from ddsmt.nodes import Node
    from vlib import trees as T
    exprs, model = [], []
    pos = [0]
    for sh in forest:
        n, m = T.build(sh, leaves, Node, pos)
        exprs.append(n)
        model.append(m)
    out = render(exprs, mode, pieces=symbolic)
    want = R.tokens(R.norm_tree(model))
    if symbolic:
        seq = R.explode(out)
    else:
        seq = out
    back = R.read(seq)
    if isinstance(back, str):
        return f'rendering is not readable ({back}): {_show(out)!r}'
    if R.tokens(R.norm_tree(back)) != want:
        return f'token sequence changed: {_show(out)!r} for {model!r}'
    again = list(nodeio.parse_smtlib(seq))
    if R.norm_tree([to_list(n) for n in again]) != R.norm_tree(model):
        return (f're-parsing gives a different tree: {_show(out)!r} for '
                f'{model!r}')
    return None


def _show(out):
    return out if isinstance(out, str) else ''.join(out)


def leaf_token(kind, c):
    """One lexeme of the given kind around a symbolic character; returns
    None when c is not allowed there."""
    if kind == 0:       # simple token
        if (c == ' ' or c == '\t' or c == '\n' or c == '\r' or c == '('
                or c == ')' or c == '"' or c == '|' or c == ';'):
            return None
        return 'a' + c
    if kind == 1:       # string literal: anything but a lone quote
        if c == '"':
            return '"x""y"'
        return '"' + c + '"'
    if kind == 2:       # quoted symbol
        if c == '|':
            return None
        return '|' + c + ' |'
    if kind == 3:       # comment (inside an expression it ends with LF)
        if c == '\n':
            return None
        return ';' + c + '\n'
    return None


def make_tree(forests, mode):
    def h(i: int, k0: int, k1: int, k2: int, c0: str, c1: str, c2: str):
        from vlib import trees as T
        assume(0 <= i < len(forests))
        forest = forests[i]
        n = sum(T.count_leaves(s) for s in forest)
        leaves = []
        for j, (k, c) in enumerate(((k0, c0), (k1, c1), (k2, c2))):
            if j < n:
                assume(0 <= k <= 3)
                assume(len(c) == 1)
                t = leaf_token(k, c)
                assume(t is not None)
                leaves.append(t)
            else:
                assume(k == 0 and len(c) == 0)
        r = check_tree(forest, leaves, mode, symbolic=True)
        if r is not None:
            raise Violation(r)
    return h


def _tree_forests(tier):
    from vlib import trees as T
    n, maxleaf = (4, 2) if tier == 'quick' else (5, 3)
    out = [(s,) for s in T.shapes_up_to(n)
           if 1 <= T.count_leaves(s) <= maxleaf
           and T.count_shape_nodes(s) >= 3]
    small = [s for s in T.shapes_up_to(2)]
    for a in small:
        for b in small:
            if 1 <= T.count_leaves(a) + T.count_leaves(b) <= maxleaf:
                out.append((a, b))
    return out


def _chunks(xs, n):
    k = max(1, (len(xs) + n - 1) // n)
    return [xs[i:i + k] for i in range(0, len(xs), k)]


def run_deep():
    """Auxiliary (concrete): nesting far deeper than Python's default
    recursion limit, long flat lists and long tokens through all four
    renderers - the writers are documented to be iterative."""
    import sys
    import time
    from ddsmt import nodeio
    t0 = time.time()
    old = sys.getrecursionlimit()
    sys.setrecursionlimit(1000)          # the limit ddSMT itself runs under
    bad = None
    n = 0
    try:
        texts = ['(assert ' + '(not ' * 3000 + 'p' + ')' * 3000 + ')',
                 '(' * 2500 + ')' * 2500,
                 '(f ' + ' '.join(f'x{i}' for i in range(5000)) + ')',
                 '(assert (= s "' + 'a b ' * 500 + '"))',
                 '(a ' + '(b ' * 1200 + '(c d) ' + ')' * 1200 + ' e)']
        for text in texts:
            for mode in MODES:
                n += 1
                try:
                    # only ddSMT's own code under the low limit: parse,
                    # render, re-parse, structural comparison (Node.__eq__)
                    exprs = list(nodeio.parse_smtlib(text))
                    out = render(exprs, mode)
                    again = list(nodeio.parse_smtlib(out))
                    r = None if again == exprs else \
                        're-parsing gives a different tree'
                except RecursionError:
                    r = 'RecursionError'
                except Exception as e:
                    r = f'{type(e).__name__}: {e}'
                if r and bad is None:
                    bad = ({'text_head': text[:40], 'mode': mode},
                           f'{mode} renderer on an input of nesting depth '
                           f'{text.count("(")}: {str(r)[:200]}')
    finally:
        sys.setrecursionlimit(old)
    return {'status': 'VIOLATED' if bad else 'CONFIRMED',
            'cex': bad[0] if bad else None,
            'exc': {'type': 'Violation', 'msg': bad[1]} if bad else None,
            'paths': n, 'paths_ok': n, 'samples': [{'depths': [3000, 2500]}],
            'solver_checks': 0, 'solver_seconds': 0.0,
            'wall_s': round(time.time() - t0, 2),
            'note': 'concrete deep/long inputs (auxiliary)'}


def bounds(tier):
    return {'max_len': 3 if tier == 'quick' else 4}


def _setup():
    from vlib import shims
    shims.install_hash('S')
    shims.install_node_format()


_NM = {'(': 'lp', ')': 'rp', '"': 'dq', '|': 'bar', ';': 'sc', ' ': 'sp',
       'TN': 'tn', '\r': 'cr', 'o': 'o'}


def partitions(tier):
    N = bounds(tier)['max_len']
    parts = []
    for mode in MODES:
        for L in range(0, N + 1):
            if L <= 1:
                pinsets = [()]
            elif L == 2:
                pinsets = [(a,) for a in CLASSES]
            else:
                pinsets = [(a, b) for a in CLASSES for b in CLASSES]
            for pins in pinsets:
                if _empty_partition(pins, L):
                    continue
                nm = f'{mode}_len{L}' + ''.join('_' + _NM[c] for c in pins)
                parts.append({
                    'name': nm, 'fn': make(L, pins, mode), 'setup': _setup,
                    'budget_s': 160 if tier == 'quick' else 850,
                    'bounds': {'mode': mode, 'len': L,
                               'first_classes': list(pins)}})
    for L in range(0, N + 1):
        pinsets = [()] if L <= 1 else [(a,) for a in CLASSES]
        for pins in pinsets:
            if _empty_partition(pins, L):
                continue
            nm = f'width_len{L}' + ''.join('_' + _NM[c] for c in pins)
            parts.append({'name': nm, 'fn': make_width(L, pins),
                          'setup': _setup,
                          'budget_s': 160 if tier == 'quick' else 850,
                          'bounds': {'len': L, 'width': '0..6 (symbolic)'}})
    for mode in MODES:
        for k, ch in enumerate(_chunks(_tree_forests(tier), 8 if tier == 'quick' else 36)):
            parts.append({'name': f'tree_{mode}_{k}',
                          'fn': make_tree(ch, mode), 'setup': _setup,
                          'budget_s': 160 if tier == 'quick' else 850,
                          'bounds': {'mode': mode, 'forests': len(ch),
                                     'leaf': 'one symbolic character inside a lexeme of symbolic kind'}})
    for pad in range(60, 80, 2 if tier == 'quick' else 1):
        for L in range(0, 3 if tier == 'quick' else 4):
            parts.append({'name': f'ctx_pad{pad}_len{L}',
                          'fn': make_ctx(pad, L), 'setup': _setup,
                          'budget_s': 160 if tier == 'quick' else 850,
                          'bounds': {'pad': pad, 'len': L}})
    parts.append({'name': 'deep', 'kind': 'native', 'run': run_deep,
                  'budget_s': 300})
    return parts


def replay(part, cex):
    if part == 'deep':
        r = run_deep()
        return r['exc']['msg'] if r['exc'] else None
    if part.startswith('tree'):
        import os
        _, mode, k = part.split('_')
        tier = os.environ.get('VERIF_TIER_REPLAY', 'quick')
        forest = _chunks(_tree_forests(tier), 8 if tier == 'quick' else 36)[int(k)][cex['i']]
        from vlib import trees as T
        n = sum(T.count_leaves(sh) for sh in forest)
        try:
            leaves = [leaf_token(cex[f'k{j}'], cex[f'c{j}'])
                      for j in range(n)]
            return check_tree(forest, leaves, mode)
        except Exception as e:
            return f'{type(e).__name__}: {e}'
    if part.startswith('width'):
        try:
            r = check_width(cex['text'], cex['w'])
        except Exception as e:
            return f'{type(e).__name__}: {e}'
        return None if r in (None, 'skip') else f'input {cex["text"]!r}: {r}'
    if part.startswith('ctx'):
        pad = int(part.split('_')[1][3:])
        try:
            r = check_ctx(pad, cex['text'])
        except Exception as e:
            return f'{type(e).__name__}: {e}'
        return None if r in (None, 'skip') else \
            f'pad {pad}, inner text {cex["text"]!r}: {r}'
    mode = part.split('_')[0]
    try:
        r = check_text(cex['text'], mode)
    except Exception as e:
        return f'{type(e).__name__}: {e} for {cex["text"]!r} in mode {mode}'
    if r == 'skip' or r is None:
        return None
    return f'mode {mode}, input {cex["text"]!r}: {r}'
