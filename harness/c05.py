"""C05 - accepted inputs form a chain; stale parallel results are never
adopted.

The real ``strategy_ddmin.reduce`` and ``strategy_hierarchical.reduce`` run
in the nondeterministic environment of vlib/stubs/strat.py: the verdict of
every distinct candidate (first V distinct candidates) and every scheduling
step of the process pool (first S choices: pull / execute one of the first J
queued tasks / deliver) are decided by CrossHair/z3 path exploration, i.e.
all 2^V verdict functions x all schedules within the budgets are explored
exhaustively.  Asserted: every write of the output file was accepted
before, derives from the previously written input by one recorded
simplification, the returned input is the last one written, node ids of
every input handed to a task generator / producer are pairwise distinct.
"""
from vlib.stubs.strat import Decider
from harness import strat_common as SC

ID = 'C05'
LEVEL = 'model_checking'
FUNCTIONS = ['ddsmt.strategy_ddmin:reduce', 'ddsmt.strategy_ddmin:_apply_mutator',
             'ddsmt.strategy_ddmin:_check_seq', 'ddsmt.strategy_ddmin:_check_par',
             'ddsmt.strategy_ddmin:_worker', 'ddsmt.strategy_ddmin:TaskGenerator',
             'ddsmt.strategy_hierarchical:reduce',
             'ddsmt.strategy_hierarchical:Producer',
             'ddsmt.strategy_hierarchical:Consumer',
             'ddsmt.mutator_utils:apply_simp', 'ddsmt.nodes:reduplicate']
ASSUMPTIONS = [
    'checker.check_exprs is an oracle on token sequences (deterministic '
    'command); the first V distinct candidates have free verdicts, later ones '
    'are rejected',
    'multiprocessing.Pool / Manager().Event() are replaced by FakePool / a '
    'plain flag: generator steps, task executions and result deliveries are '
    'atomic; after S scheduler choices the lazy schedule is used',
    'runs that accept more than 12 candidates are cut off (possible cycles '
    'are the subject of C03)',
    'the strategy code runs untraced; only the choices are symbolic',
]
OUTSIDE = ['real processes; torn reads between the pool feeder thread and '
           'the main thread', 'more than V free verdicts / S free scheduling '
           'choices', 'inputs other than the four scenario scripts']

RULE = ('one evaluation = one complete run of the real strategy under one '
        'verdict function and schedule (a path of the choice tree); '
        'distinct = choice vectors differ; non-trivial = the run finished '
        'and was checked')


def bounds(tier):
    return {'V': 8 if tier == 'quick' else 11,
            'Vpar': 7 if tier == 'quick' else 9,
            'S': 5 if tier == 'quick' else 6,
            'Sreq': 4 if tier == 'quick' else 6,
            'Vhash': 7 if tier == 'quick' else 9,
            'J': [1, 2] if tier == 'quick' else [1, 2, 3]}


def body(decider, strategy, jobs, nbits, script, mutset, checker_fn,
         oracle='first'):
    # C02 compares with a second run on the re-parsed output, whose node ids
    # (hence the numbers in x<id>__fresh) differ: names modulo that number
    env = SC.setup(decider, strategy, jobs, nbits, script, mutset,
                   oracle=oracle, maxwrites=12 if oracle == 'first' else 40,
                   norm_fresh=(checker_fn is SC.check_fixed_point))
    try:
        try:
            final = SC.run_strategy(env, strategy)
        except SC.Runaway:
            # cut off: the chain relation must hold for the writes so far
            # (a run cut off at the write bound counts with its prefix)
            if checker_fn is SC.check_chain:
                return SC.check_chain(env, None)
            return 'runaway'
        return checker_fn(env, final)
    finally:
        env.restore()


def make_run(strategy, jobs, script, mutset, tier,
             checker_fn=SC.check_chain, pin=(), oracle='first'):
    """Partition runner: z3 all-SAT over the choice vector."""
    b = bounds(tier)
    V = b['V'] if jobs == 1 else b['Vpar']
    S = b['S']
    if oracle in ('req', 'same', 'shape'):
        V = len(SC.KEYS[script])        # one bit per key token
        S = b['Sreq']
    elif oracle.startswith('hash'):
        V = b['Vhash']
        S = b['Sreq']
    nbits = V + (S if jobs > 1 else 0)

    reserved = V if oracle.startswith('hash') else 0

    def once(vec):
        d = Decider(nbits - reserved, replay=list(vec), reserved=reserved)
        r = body(d, strategy, jobs, V, script, mutset, checker_fn, oracle)
        if r == 'runaway':
            return 'skip', d.read
        return r, d.read

    def run():
        from vlib.engine import explore_choices
        return explore_choices(once, nbits,
                               budget_s=170 if tier == 'quick' else 850,
                               pin=pin)
    return run


def _setup():
    pass


CONFIGS = [
    # (strategy, script, mutset)
    ('hierarchical', 'a', 'core'), ('hierarchical', 'b', 'mix'),
    ('hierarchical', 'd', 'mix'), ('hierarchical', 'c', 'erase'),
    ('ddmin', 'a', 'core'), ('ddmin', 'b', 'mix'), ('ddmin', 'c', 'erase'),
    ('ddmin', 'd', 'mix'), ('hierarchical', 'b', 'elim'),
    ('ddmin', 'b', 'elim'), ('ddmin', 'k', 'consts'),
    ('hierarchical', 'e', 'consts'), ('hierarchical', 'k4', 'consts'),
]


def partitions(tier):
    parts = []
    b = bounds(tier)
    import itertools
    from harness import c01
    # real fork pool: every worker checks its candidates in a file of its
    # own (a shared file would let a worker read another worker's candidate
    # and report a verdict for an input it did not produce)
    parts.append({'name': 'candfiles', 'kind': 'native',
                  'run': c01.run_tmpnames, 'budget_s': 120})
    for (st, sc, ms) in CONFIGS:
        for j in b['J']:
            npin = 0 if j == 1 else (2 if tier == 'quick' else 3)
            if j == 3 and (st, sc, ms) not in CONFIGS[:2] + CONFIGS[4:6]:
                continue      # three workers: four configurations only
            if sc == 'k4':
                # large input: only the same-size adversary, one worker
                if j == 1:
                    parts.append({'name': f'{st}_{sc}_{ms}_j1_shape',
                                  'kind': 'choices',
                                  'run': make_run(st, 1, sc, ms, tier, pin=(),
                                                  oracle='shape'),
                                  'budget_s': 170 if tier == 'quick' else 850,
                                  'bounds': {'strategy': st, 'script': sc,
                                             'mutators': ms, 'jobs': 1,
                                             'oracle': 'same-shape'}})
                continue
            for pin in itertools.product((0, 1), repeat=npin):
                nm = f'{st}_{sc}_{ms}_j{j}' + (
                    '_p' + ''.join(map(str, pin)) if pin else '')
                if not pin or sum(pin) == 0:
                    parts.append({'name': (nm if not pin else nm[:nm.rindex('_p')]) + '_req', 'kind': 'choices',
                                  'run': make_run(st, j, sc, ms, tier, pin=(),
                                                  oracle='req'),
                                  'budget_s': 170 if tier == 'quick' else 850,
                                  'bounds': {'strategy': st, 'script': sc,
                                             'mutators': ms, 'jobs': j,
                                             'oracle': 'required-tokens',
                                             'S': b['S'],
                                             'pinned_first_bits': list(pin)}})
                if not pin or sum(pin) == 0:
                    base_nm = nm if not pin else nm[:nm.rindex('_p')]
                    # thorough, several workers: split by the verdict of the
                    # first hash class
                    for hp in ([()] if tier == 'quick' or j == 1
                               else [(0,), (1,)]):
                        parts.append({'name': base_nm + (f'_q{hp[0]}' if hp
                                                        else '') + '_hash0',
                                      'kind': 'choices',
                                      'run': make_run(st, j, sc, ms, tier,
                                                      pin=hp, oracle='hash0'),
                                      'budget_s': 170 if tier == 'quick'
                                      else 850,
                                      'bounds': {'strategy': st, 'script': sc,
                                                 'mutators': ms, 'jobs': j,
                                                 'oracle': 'hash-classes',
                                                 'S': b['S'],
                                                 'pinned_first_bits':
                                                 list(hp)}})
                if not pin or sum(pin) == 0:
                    base_nm = nm if not pin else nm[:nm.rindex('_p')]
                    # thorough, several workers: split by the verdict of the
                    # first hash class
                    for hp in ([()] if tier == 'quick' or j == 1
                               else [(0,), (1,)]):
                        parts.append({'name': base_nm + (f'_q{hp[0]}' if hp
                                                        else '') + '_hash1',
                                      'kind': 'choices',
                                      'run': make_run(st, j, sc, ms, tier,
                                                      pin=hp, oracle='hash1'),
                                      'budget_s': 170 if tier == 'quick'
                                      else 850,
                                      'bounds': {'strategy': st, 'script': sc,
                                                 'mutators': ms, 'jobs': j,
                                                 'oracle': 'hash-classes',
                                                 'S': b['S'],
                                                 'pinned_first_bits':
                                                 list(hp)}})
                if ms == 'consts' and (not pin or sum(pin) == 0):
                    parts.append({'name': (nm if not pin else nm[:nm.rindex('_p')]) + '_shape', 'kind': 'choices',
                                  'run': make_run(st, j, sc, ms, tier, pin=(),
                                                  oracle='shape'),
                                  'budget_s': 170 if tier == 'quick' else 850,
                                  'bounds': {'strategy': st, 'script': sc,
                                             'mutators': ms, 'jobs': j,
                                             'oracle': 'same-shape',
                                             'S': b['S'],
                                             'pinned_first_bits': list(pin)}})
                parts.append({'name': nm, 'kind': 'choices',
                              'run': make_run(st, j, sc, ms, tier, pin=pin),
                              'budget_s': 170 if tier == 'quick' else 850,
                              'samples': 1,
                              'bounds': {'strategy': st, 'script': sc,
                                         'mutators': ms, 'jobs': j,
                                         'V': b['V'], 'S': b['S'],
                                         'pinned_first_bits': list(pin)}})
    return parts


def replay(part, cex, checker_fn=SC.check_chain):
    import os
    if part == 'candfiles':
        from harness import c01
        r = c01.run_tmpnames()
        return r['exc']['msg'] if r['exc'] else None
    st, sc, ms, j = part.split('_')[:4]
    oracle = 'req' if part.endswith('_req') else 'same' if part.endswith('_same') else 'shape' if part.endswith('_shape') else (
        part[part.rindex('_') + 1:] if '_hash' in part else 'first')
    tier = os.environ.get('VERIF_TIER_REPLAY', 'quick')
    b = bounds(tier)
    jobs = int(j[1:])
    V = b['V'] if jobs == 1 else b['Vpar']
    if oracle in ('req', 'same', 'shape'):
        V = len(SC.KEYS[sc])
    elif oracle.startswith('hash'):
        V = b['Vhash']
    d = Decider(10 ** 6, replay=cex['bits'],
                reserved=V if oracle.startswith('hash') else 0)
    try:
        r = body(d, st, jobs, V, sc, ms, checker_fn, oracle)
    except Exception as e:
        return f'{type(e).__name__}: {e}'
    return None if r in (None, 'runaway') else r
