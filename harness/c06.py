"""C06 - the output file is a complete accepted input at every instant.

E1: the real ``nodeio.write_smtlib_to_file`` (directly, and through the real
hierarchical / ddmin strategies) runs against a POSIX-like fake file system in
which every low-level operation (open/truncate, each write, close, replace,
remove) is one step.  The *crash point* n is a symbolic integer: the process
dies (KeyboardInterrupt / kill) right before step n.  After every step - a
concurrent reader may open the file then - and after the crash the content
visible under the output path must be the complete text of an accepted input
(the previous or the new one while a rewrite is in progress, the last one
otherwise); no path other than the output file (and temporary siblings of
it) is opened for writing.
"""
from vlib.engine import assume, Violation

ID = 'C06'
LEVEL = 'model_checking'
FUNCTIONS = ['ddsmt.nodeio:write_smtlib_to_file', 'ddsmt.nodeio:write_smtlib',
             'ddsmt.strategy_hierarchical:reduce',
             'ddsmt.strategy_ddmin:_check_seq', 'ddsmt.__main__:main']
ASSUMPTIONS = [
    'fake file system with POSIX semantics: open(path, "w") truncates at '
    'once; write() either reaches the file immediately or (second variant) '
    'stays in the handle buffer until flush/close - the two extremes of '
    'buffering; os.replace/os.rename are atomic; a crash happens between two '
    'file-system operations',
    'builtin open and the os module as seen by ddsmt.nodeio are replaced by '
    'the fake; the strategies run with the oracle/pool stubs of C05',
]
OUTSIDE = ['removal of the temporary directory at interpreter exit '
           '(tempfile.TemporaryDirectory finaliser)', 'the real kernel and '
           'file system (modelled, not executed)',
           'power loss (no fsync is demanded)']


class Crash(BaseException):
    pass


class Inode:
    def __init__(self):
        self.data = ''


class _View(dict):
    """name -> content view over name -> Inode."""


class FakeFS:
    def __init__(self, crash_at, observer, buffered=False):
        self.buffered = buffered
        self.inodes = {}
        self.step = 0
        self.crash_at = crash_at
        self.observer = observer
        self.opened_w = []
        self.renamed = {}
        self.crashed = False

    @property
    def files(self):
        return {k: v.data for k, v in self.inodes.items()}

    def tick(self, what):
        """Called before every operation."""
        if type(self.crash_at) is int:
            hit = (self.step == self.crash_at)
        else:
            from crosshair.tracers import ResumedTracing
            with ResumedTracing():
                hit = bool(self.step == self.crash_at)
        if hit:
            self.crashed = True
            raise KeyboardInterrupt()
        self.step += 1

    def after(self):
        self.observer(self)

    def open(self, name, mode='r'):
        fs = self

        class H:
            def __init__(h):
                h.closed = False
                h.buf = ''
                h.inode = None

            def write(h, s):
                if fs.buffered:
                    h.buf = h.buf + s     # reaches the file at flush/close
                    return
                fs.tick('write')
                h.inode.data = h.inode.data + s
                fs.after()

            def flush(h):
                if h.buf:
                    fs.tick('flush')
                    # the data follows the open file, whatever its name now
                    h.inode.data = h.inode.data + h.buf
                    h.buf = ''
                    fs.after()

            def close(h):
                if not h.closed:
                    h.flush()
                    h.closed = True

            def __enter__(h):
                return h

            def __exit__(h, *a):
                h.close()
                return False

            def read(h):
                return h.inode.data

        hd = H()
        if 'w' in mode:
            self.tick('open')
            self.opened_w.append(name)
            if name in self.inodes:
                self.inodes[name].data = ''      # truncate in place
            else:
                self.inodes[name] = Inode()
            hd.inode = self.inodes[name]
            self.after()
        elif name not in self.inodes:
            raise FileNotFoundError(name)
        else:
            hd.inode = self.inodes[name]
        return hd


class FakeOS:
    """The part of ``os`` a file writer may use."""

    def __init__(self, fs):
        import os
        self.fs = fs
        self.path = os.path
        self.sep = os.sep

    def getpid(self):
        return 4242

    def replace(self, a, b):
        self.fs.tick('replace')
        self.fs.inodes[b] = self.fs.inodes.pop(a)
        self.fs.after()

    rename = replace

    def remove(self, a):
        self.fs.tick('remove')
        self.fs.inodes.pop(a, None)
        self.fs.after()

    unlink = remove

    def fsync(self, fd):
        pass


OUT = 'out.smt2'
SCRIPT = ['(declare-const x Int)(assert (> x 1))(assert (< x 5))(check-sat)',
          '(declare-const x Int)(assert (< x 5))(check-sat)',
          '(declare-const x Int)(check-sat)',
          '(check-sat)']


def direct_body(n, fmt, buffered=False):
    """Three successive rewrites of the output file."""
    from ddsmt import nodeio
    from harness.c07 import _set_mode
    _set_mode(['default', 'pretty', 'wrap'][fmt])
    seqs = [list(nodeio.parse_smtlib(t)) for t in SCRIPT]
    texts = [nodeio.write_smtlib_to_str(e) for e in seqs]
    state = {'k': 0, 'bad': None}

    def observer(fs):
        if state['bad'] or OUT not in fs.files or state['k'] == 0:
            return
        allowed = texts[max(state['k'] - 2, 0):state['k']] \
            if state['writing'] else [texts[state['k'] - 1]]
        if state['k'] == 1 and state['writing']:
            allowed = [texts[0]]
            if fs.files[OUT] not in allowed and state['first_pending']:
                return      # before the first accepted input is complete
        if fs.files[OUT] not in allowed:
            state['bad'] = (f'step {fs.step}: a reader of the output file '
                            f'sees {fs.files[OUT]!r} while rewrite '
                            f'#{state["k"]} is in progress')

    fs = FakeFS(n, observer, buffered)
    saved = {'open': getattr(nodeio, 'open', None),
             'os': getattr(nodeio, 'os', None)}
    nodeio.open = fs.open
    nodeio.os = FakeOS(fs)
    state['writing'] = False
    state['first_pending'] = True
    try:
        try:
            for k, e in enumerate(seqs):
                state['k'] = k + 1
                state['writing'] = True
                nodeio.write_smtlib_to_file(OUT, e)
                state['writing'] = False
                state['first_pending'] = False
                observer(fs)
        except KeyboardInterrupt:
            pass
    finally:
        for k, v in saved.items():
            if v is None:
                if hasattr(nodeio, k):
                    delattr(nodeio, k)
            else:
                setattr(nodeio, k, v)
    if state['bad']:
        return state['bad']
    done = state['k'] - (1 if state['writing'] else 0)
    if fs.crashed and OUT in fs.files and not state['first_pending']:
        allowed = texts[max(done - 1, 0):done + 1]
        if fs.files[OUT] not in allowed:
            return (f'after a crash at step {n} the output file holds '
                    f'{fs.files[OUT]!r}, not a complete accepted input')
    bad = [p for p in fs.opened_w if not p.startswith(OUT)]
    if bad:
        return f'opened for writing: {bad}'
    if not fs.crashed:
        left = [p for p in fs.files if p != OUT]
        if left:
            return f'temporary files left behind: {left}'
        if fs.files.get(OUT) != texts[-1]:
            return 'final content is not the last accepted input'
    return None


def make_direct(buffered):
    def h(n: int, fmt: int):
        from crosshair.tracers import NoTracing
        assume(0 <= n <= 120)
        assume(0 <= fmt <= 2)
        from crosshair.core import realize
        fmt = realize(fmt)
        with NoTracing():
            r = direct_body(n, fmt, buffered)
        if r:
            raise Violation(r)
    return h


def par_body(n, bits):
    """ddmin through _check_par (two jobs): the process may be interrupted
    between any two steps of the pool (task pulled / executed / result
    delivered) and between file-system operations.  Whenever it is, the
    output file holds the input that was adopted last (or, while its
    rewrite is in progress, the one before)."""
    from ddsmt import nodeio, strategy_ddmin
    from vlib.stubs.strat import Decider
    from harness import strat_common as SC
    d = Decider(10 ** 6, replay=bits)
    env = SC.setup(d, 'ddmin', 2, 6, 'h', 'erase', oracle='req',
                   maxwrites=60)
    recorded = nodeio.write_smtlib_to_file
    state = {'bad': None, 'writing': False, 'adopted': [], 'written': []}

    def observer(fs):
        pass

    fs = FakeFS(n, observer)
    true_write = SC_REAL_WRITE[0]

    def write(filename, exprs):
        state['writing'] = True
        true_write(OUT, exprs)
        state['writing'] = False
        state['written'].append(nodeio.write_smtlib_to_str(exprs))

    real_update = strategy_ddmin.TaskGenerator.update

    def update(self, exprs):
        state['adopted'].append(nodeio.write_smtlib_to_str(exprs))
        return real_update(self, exprs)

    def on_step(step):
        fs.tick('pool ' + step)
        # between two pool steps no rewrite is in progress: the file shows
        # the input adopted last
        if state['adopted'] and not state['bad']:
            cur = fs.files.get(OUT)
            if cur != state['adopted'][-1]:
                state['bad'] = (f'interruptible instant (pool step {step}): '
                                f'the last adopted input is '
                                f'{state["adopted"][-1]!r} but the output file '
                                f'holds {cur!r}')

    env.mp.on_step = on_step
    nodeio.write_smtlib_to_file = write
    strategy_ddmin.TaskGenerator.update = update
    saved = {'open': getattr(nodeio, 'open', None),
             'os': getattr(nodeio, 'os', None)}
    nodeio.open = fs.open
    nodeio.os = FakeOS(fs)
    try:
        try:
            SC.run_strategy(env, 'ddmin')
        except KeyboardInterrupt:
            pass
        except SC.Runaway:
            return 'skip'
    finally:
        nodeio.write_smtlib_to_file = recorded
        strategy_ddmin.TaskGenerator.update = real_update
        env.restore()
        for k, v in saved.items():
            if v is None:
                if hasattr(nodeio, k):
                    delattr(nodeio, k)
            else:
                setattr(nodeio, k, v)
    if state['bad']:
        return state['bad']
    if fs.crashed and state['adopted'] and OUT in fs.files:
        if fs.files[OUT] not in state['adopted'][-2:]:
            return (f'after an interrupt the output file holds '
                    f'{fs.files[OUT]!r}, the last adopted inputs are '
                    f'{state["adopted"][-2:]!r}')
    return None


def make_par(bits):
    def h(n: int):
        from crosshair.tracers import NoTracing
        assume(0 <= n <= 600)
        with NoTracing():
            r = par_body(n, bits)
        assume(r != 'skip')
        if r:
            raise Violation(r)
    return h


PAR_BITS = ([1, 0, 1, 0, 0, 0], [0, 1, 0, 1, 0, 0, 1, 0, 1, 1],
            [1, 1, 0, 1, 1, 0, 1, 1, 1, 0, 1], [0, 0, 1, 0, 0, 0, 0, 1, 1])


def strategy_body(n, strategy, bits, scen=('a', 'core', 'req')):
    """The write sites of the real strategies: run with a fixed oracle that
    accepts candidates keeping '<', crash before FS step n."""
    from ddsmt import nodeio
    from vlib.stubs.strat import Decider
    from harness import strat_common as SC
    d = Decider(10 ** 6, replay=bits)
    env = SC.setup(d, strategy, 1, 6, scen[0], scen[1], oracle=scen[2],
                   maxwrites=60)
    # undo the write recorder: the real writer runs on the fake FS
    real_write = None
    for (mod, name), val in list(env.__dict__.get('_saved', {}).items()):
        pass
    import importlib
    nodeio_mod = nodeio
    recorded = nodeio_mod.write_smtlib_to_file
    accepted_texts = []
    state = {'bad': None, 'writing': False}

    def observer(fs):
        if state['bad'] or OUT not in fs.files or not accepted_texts:
            return
        allowed = accepted_texts[-2:] if state['writing'] \
            else accepted_texts[-1:]
        if len(accepted_texts) == 1 and state['writing']:
            return
        if fs.files[OUT] not in allowed:
            state['bad'] = (f'step {fs.step}: a reader sees '
                            f'{fs.files[OUT]!r} during a rewrite')

    fs = FakeFS(n, observer)
    true_write = SC_REAL_WRITE[0]

    def write(filename, exprs):
        accepted_texts.append(nodeio.write_smtlib_to_str(exprs))
        state['writing'] = True
        true_write(OUT, exprs)
        state['writing'] = False
        observer(fs)

    # what the strategy adopts as its current input, recorded independently
    # of the writes: ddmin through TaskGenerator.update, hierarchical through
    # the re-duplication of the accepted candidate
    from ddsmt import strategy_ddmin as _sd, nodes as _nodes
    adopted = []
    real_update = _sd.TaskGenerator.update
    real_redup = _nodes.reduplicate

    def adopt(exprs):
        # when the next input is adopted, the rewrite for the previous one
        # is over: the file must hold it (an interrupt may come right now)
        if adopted and not state['bad'] and not state['writing']:
            cur = fs.files.get(OUT)
            if cur != adopted[-1]:
                state['bad'] = (f'when input #{len(adopted) + 1} was '
                                f'adopted the output file did not hold input '
                                f'#{len(adopted)} ({adopted[-1]!r}) but '
                                f'{cur!r}')
        adopted.append(nodeio.write_smtlib_to_str(exprs))

    def update(self, exprs):
        adopt(exprs)
        return real_update(self, exprs)

    def redup(exprs):
        if strategy == 'hierarchical':
            adopt(exprs)
        return real_redup(exprs)

    _sd.TaskGenerator.update = update
    _nodes.reduplicate = redup
    nodeio.write_smtlib_to_file = write
    saved = {'open': getattr(nodeio, 'open', None),
             'os': getattr(nodeio, 'os', None)}
    nodeio.open = fs.open
    nodeio.os = FakeOS(fs)
    try:
        try:
            SC.run_strategy(env, strategy)
        except KeyboardInterrupt:
            pass
        except SC.Runaway:
            return 'skip'
    finally:
        nodeio.write_smtlib_to_file = recorded
        _sd.TaskGenerator.update = real_update
        _nodes.reduplicate = real_redup
        env.restore()
        for k, v in saved.items():
            if v is None:
                if hasattr(nodeio, k):
                    delattr(nodeio, k)
            else:
                setattr(nodeio, k, v)
    if state['bad']:
        return state['bad']
    if adopted and not state['writing']:
        # between rewrites (in particular at the end and at an interrupt) the
        # file holds the input adopted last - or, if the interrupt fell
        # between adoption and rewrite, the one before
        cur = fs.files.get(OUT)
        ok = adopted[-2:] if fs.crashed else adopted[-1:]
        if cur not in ok:
            return (f'the last adopted input is {adopted[-1]!r} but the '
                    f'output file holds {cur!r}'
                    + (f' (interrupt before step {n})' if fs.crashed else
                       ' at the end of the run'))
    if fs.crashed and OUT in fs.files and len(accepted_texts) >= 1:
        if not (len(accepted_texts) == 1 and state['writing']):
            if fs.files[OUT] not in accepted_texts[-2:]:
                return (f'after an interrupt before step {n} the output file '
                        f'holds {fs.files[OUT]!r}')
    bad = [p for p in fs.opened_w if not p.startswith(OUT)]
    if bad:
        return f'opened for writing: {bad}'
    return None


def main_body(n, strategy, bits):
    """A whole run of cli.ddsmt_main: every way any ddsmt module opens,
    replaces or removes the output path (or a sibling of it) goes to the fake
    file system - builtins.open and the os functions are intercepted for
    these paths only; input file, command and temporary directory are real."""
    import builtins
    import logging
    import os
    import shutil
    import tempfile
    from ddsmt import (checker, cli, nodeio, options, progress,
                       strategy_ddmin, strategy_hierarchical)
    from vlib.stubs.strat import Decider, FakeMP, tokens
    from harness import strat_common as SC
    work = tempfile.mkdtemp(prefix='verif-c06-')
    out = os.path.join(work, 'out.smt2')
    d = Decider(10 ** 6, replay=bits)
    accepted_texts = []
    state = {'bad': None, 'writing': False}

    def observer(fs):
        if state['bad'] or out not in fs.files or not accepted_texts:
            return
        allowed = accepted_texts[-2:] if state['writing'] \
            else accepted_texts[-1:]
        if len(accepted_texts) == 1 and state['writing']:
            return
        if fs.files[out] not in allowed:
            state['bad'] = (f'step {fs.step}: a reader sees '
                            f'{fs.files[out]!r} although the last accepted '
                            f'input is {accepted_texts[-1]!r}')

    fs = FakeFS(n, observer)
    fos = FakeOS(fs)
    real_open = builtins.open
    real = {k: getattr(os, k) for k in ('replace', 'rename', 'remove',
                                        'unlink')}
    real_getsize = os.path.getsize

    def mine(path):
        return isinstance(path, str) and path.startswith(out)

    def open_(path, mode='r', *a, **k):
        if mine(path):
            return fs.open(path, mode)
        return real_open(path, mode, *a, **k)

    def two(name):
        def f(a, b, *r, **k):
            if mine(a) or mine(b):
                return getattr(fos, name)(a, b)
            return real[name](a, b, *r, **k)
        return f

    def one(name):
        def f(a, *r, **k):
            if mine(a):
                return getattr(fos, name)(a)
            return real[name](a, *r, **k)
        return f

    def getsize(path):
        if mine(path):
            return len(fs.files[path])
        return real_getsize(path)

    true_write = SC_REAL_WRITE[0]

    def write(filename, exprs):
        accepted_texts.append(nodeio.write_smtlib_to_str(exprs))
        state['writing'] = True
        try:
            true_write(filename, exprs)
        finally:
            state['writing'] = False
        observer(fs)

    saved = []

    def patch(mod, name, val):
        saved.append((mod, name, getattr(mod, name)))
        setattr(mod, name, val)

    try:
        infile = os.path.join(work, 'in.smt2')
        cmd = os.path.join(work, 'solver')
        with real_open(infile, 'w') as f:
            f.write(SC.SCRIPTS['a'])
        with real_open(cmd, 'w') as f:
            f.write('#!/bin/sh\n')
        os.chmod(cmd, 0o755)
        ns = SC._namespace(strategy, 1, 'core', out)
        ns.infile = infile
        ns.cmd = [cmd]
        ns.cmd_cc = None
        ns.timeout = None
        orig = tokens(list(nodeio.parse_smtlib(SC.SCRIPTS['a'])))
        oracle = SC.RequiredTokensOracle(d, SC.KEYS['a'], orig)

        def execute(xcmd, filename, timeout):
            t = tokens(list(nodeio.parse_smtlib(real_open(filename).read())))
            v = oracle.verdict(t)
            return checker.RunInfo(0 if v else 1, '', '', 0.01)

        mp = FakeMP(d, 4)
        patch(checker, 'execute', execute)
        patch(nodeio, 'write_smtlib_to_file', write)
        patch(strategy_ddmin, 'multiprocessing', mp)
        patch(strategy_hierarchical, 'multiprocessing', mp)
        patch(progress, 'start', lambda *a: None)
        patch(progress, 'update', lambda *a: None)
        patch(progress, 'finish', lambda *a: None)
        if not hasattr(logging, 'chat'):
            setattr(options, '__PARSED_ARGS', ns)
            cli.setup_logging()
        patch(cli, 'setup_logging', lambda: None)
        logging.getLogger().setLevel(logging.CRITICAL)
        patch(builtins, 'open', open_)
        patch(os, 'replace', two('replace'))
        patch(os, 'rename', two('rename'))
        patch(os, 'remove', one('remove'))
        patch(os, 'unlink', one('unlink'))
        patch(os.path, 'getsize', getsize)
        try:
            cli.ddsmt_main()
        except KeyboardInterrupt:
            pass
        except SystemExit:
            pass
    finally:
        for mod, name, val in reversed(saved):
            setattr(mod, name, val)
        shutil.rmtree(work, ignore_errors=True)
    if state['bad']:
        return state['bad'].replace(work, '<dir>')
    if out in fs.files and accepted_texts:
        if not (len(accepted_texts) == 1 and state['writing']):
            if fs.files[out] not in accepted_texts[-2:]:
                return (f'at the end / after an interrupt before step {n} '
                        f'the output file holds {fs.files[out]!r}')
    bad = [p for p in fs.opened_w if not p.startswith(out)]
    if bad:
        return f'opened for writing: {bad}'
    return None


def make_main(strategy, bits):
    def h(n: int):
        from crosshair.tracers import NoTracing
        assume(0 <= n <= 400)
        with NoTracing():
            r = main_body(n, strategy, bits)
        if r:
            raise Violation(r)
    return h


SC_REAL_WRITE = [None]


SHAPE_SCEN = ('e', 'consts', 'shape')   # accepted steps keep the size


def make_strategy(strategy, bits, scen=('a', 'core', 'req')):
    def h(n: int):
        from crosshair.tracers import NoTracing
        assume(0 <= n <= 400)
        with NoTracing():
            r = strategy_body(n, strategy, bits, scen)
        assume(r != 'skip')
        if r:
            raise Violation(r)
    return h


def _setup():
    from ddsmt import nodeio
    SC_REAL_WRITE[0] = nodeio.write_smtlib_to_file


def bounds(tier):
    return {'crash_points': 'all (symbolic step index)'}


def strat_bits(tier):
    base = [[0, 0, 1, 0, 0, 0], [1, 0, 0, 0, 0, 1]]
    if tier == 'quick':
        return base
    import itertools
    return base + [list(v) for v in itertools.product((0, 1), repeat=6)
                   if list(v) not in base]


def main_bits(tier):
    base = [[1, 0, 1, 1, 0, 1]]
    if tier == 'quick':
        return base
    return base + [[0, 0, 0, 0, 0, 0], [1, 1, 1, 1, 1, 1], [0, 1, 0, 1, 1, 0],
                   [1, 1, 0, 0, 1, 0], [0, 0, 1, 1, 0, 1], [1, 0, 0, 1, 1, 1],
                   [0, 1, 1, 0, 0, 0]]


def par_bits(tier):
    base = [list(b) for b in PAR_BITS]
    if tier == 'quick':
        return base
    import random
    rnd = random.Random(6)
    return base + [[rnd.randint(0, 1) for _ in range(rnd.randint(6, 12))]
                   for _ in range(28)]


def partitions(tier):
    parts = [{'name': 'direct', 'fn': make_direct(False), 'setup': _setup,
              'budget_s': 160, 'bounds': {'writes': 'visible immediately'}},
             {'name': 'directbuf', 'fn': make_direct(True), 'setup': _setup,
              'budget_s': 160,
              'bounds': {'writes': 'buffered until flush/close'}}]
    for st in ('hierarchical', 'ddmin'):
        for k, bits in enumerate(strat_bits(tier)):
            parts.append({'name': f'{st}_{k}',
                          'fn': make_strategy(st, bits), 'setup': _setup,
                          'budget_s': 160,
                          'bounds': {'strategy': st, 'oracle_bits': bits}})
    for st in ('hierarchical', 'ddmin'):
        parts.append({'name': f'{st}shape', 'fn': make_strategy(
            st, [0, 0, 0, 0, 0, 0], SHAPE_SCEN), 'setup': _setup,
            'budget_s': 160,
            'bounds': {'strategy': st, 'scenario': 'accepted simplifications '
                       'that keep the number of s-expressions'}})
    for st in ('hierarchical', 'ddmin', 'hybrid'):
        for k, bits in enumerate(main_bits(tier)):
            parts.append({'name': f'main_{st}' + (f'_{k}' if k else ''),
                          'fn': make_main(st, bits),
                          'setup': _setup, 'budget_s': 160,
                          'bounds': {'entry': 'cli.ddsmt_main', 'strategy': st,
                                     'oracle_bits': bits}})
    for k, bits in enumerate(par_bits(tier)):
        parts.append({'name': f'par_{k}', 'fn': make_par(list(bits)),
                      'setup': _setup, 'budget_s': 160,
                      'bounds': {'strategy': 'ddmin -j2 (_check_par)',
                                 'choice_bits': list(bits)}})
    parts.append({'name': 'sigint', 'kind': 'native', 'run': run_sigint,
                  'budget_s': 300})
    return parts


def run_sigint():
    """Auxiliary (real processes): bin/ddsmt is started on a real input with
    a shell script as command and interrupted with SIGINT at several delays.
    Afterwards: exit status 1, the input file is unchanged, the output file
    (if present) is a complete accepted input, and no ddsmt-* directory is
    left in TMPDIR."""
    import os
    import shutil
    import signal
    import subprocess
    import sys
    import tempfile
    import time
    t0 = time.time()
    repo = os.environ.get('VERIF_REPO', '/repo')
    work = tempfile.mkdtemp(prefix='verif-c06-')
    bad = None
    n = 0
    try:
        tmpd = os.path.join(work, 'tmp')
        os.mkdir(tmpd)
        solver = os.path.join(work, 'solver.sh')
        with open(solver, 'w') as f:
            f.write('#!/bin/sh\nsleep 0.05\n'
                    'if grep -q "assert (> x 1)" "$1"; then echo bug; exit 1; '
                    'fi\necho ok\nexit 0\n')
        os.chmod(solver, 0o755)
        text = ('(declare-const x Int)\n(declare-const y Int)\n'
                '(assert (> x 1))\n(assert (< y 5))\n(assert (= x y))\n'
                '(check-sat)\n')
        def one(delay, tag):
            """One interrupted run; returns a description of what is wrong
            or None."""
            inp = os.path.join(work, f'in{tag}.smt2')
            out = os.path.join(work, f'out{tag}.smt2')
            with open(inp, 'w') as f:
                f.write(text)
            env = dict(os.environ)
            env['TMPDIR'] = tmpd
            # output to files: orphaned workers may keep inherited pipes open
            sof = open(os.path.join(work, f'stdout{tag}'), 'wb')
            sef = open(os.path.join(work, f'stderr{tag}'), 'wb')
            p = subprocess.Popen(
                ['/venv/bin/python', os.path.join(repo, 'bin', 'ddsmt'), '-j',
                 '2', inp, out, solver], env=env, stdout=sof, stderr=sef,
                cwd=work, start_new_session=True)
            time.sleep(delay)
            p.send_signal(signal.SIGINT)
            try:
                p.wait(timeout=120)
            except subprocess.TimeoutExpired:
                p.kill()
                return 'ddsmt did not stop within 120 s after SIGINT'
            finally:
                sof.close()
                sef.close()
                time.sleep(0.2)
                try:                      # whatever is left of the run
                    os.killpg(p.pid, signal.SIGKILL)
                except (ProcessLookupError, PermissionError):
                    pass
            so = open(os.path.join(work, f'stdout{tag}'), 'rb').read()
            finished = b'interrupted' not in so
            if not finished and p.returncode != 1:
                return (f'exit status {p.returncode} after an interrupt '
                        f'(delay {delay}s)')
            if open(inp).read() != text:
                return 'input file modified'
            if os.path.exists(out):
                got = open(out).read()
                if 'assert (> x 1)' not in got or not got.endswith('\n') \
                        or got.count('(') != got.count(')'):
                    return (f'output file after interrupt is not a '
                            f'complete accepted input: {got!r}')
            for _ in range(20):        # workers may need a moment to end
                left = [x for x in os.listdir(tmpd) if x.startswith('ddsmt-')]
                if not left:
                    break
                time.sleep(0.25)
            if left:
                return (f'temporary directory left behind after an '
                        f'interrupt: {left}')
            return None

        for delay in (0.6, 1.0, 1.5, 2.2):
            n += 1
            r = one(delay, n)
            if r:
                # real processes on a loaded machine: a defect shows every
                # time, a fluke of scheduling does not
                again = [one(delay, f'{n}r{k}') for k in range(2)]
                if all(again) and bad is None:
                    bad = r
    finally:
        shutil.rmtree(work, ignore_errors=True)
    return {'status': 'VIOLATED' if bad else 'CONFIRMED',
            'cex': {'sigint': True} if bad else None,
            'exc': {'type': 'Violation', 'msg': bad} if bad else None,
            'paths': n, 'paths_ok': n, 'samples': [{'delays': [0.6, 1.0, 1.5, 2.2]}],
            'solver_checks': 0, 'solver_seconds': 0.0,
            'wall_s': round(time.time() - t0, 2),
            'note': 'real ddsmt processes interrupted with SIGINT (auxiliary)'}


def replay(part, cex):
    _setup()
    try:
        if part == 'direct':
            return direct_body(cex['n'], cex['fmt'])
        import os
        tier = os.environ.get('VERIF_TIER_REPLAY', 'quick')
        if part.startswith('par_'):
            r = par_body(cex['n'], list(par_bits(tier)[int(part[4:])]))
            return None if r == 'skip' else r
        if part == 'sigint':
            r = run_sigint()
            return r['exc']['msg'] if r['exc'] else None
        if part == 'directbuf':
            return direct_body(cex['n'], cex['fmt'], True)
        if part.startswith('main_'):
            f = part.split('_')
            k = int(f[2]) if len(f) > 2 else 0
            return main_body(cex['n'], f[1], main_bits(tier)[k])
        if part.endswith('shape'):
            r = strategy_body(cex['n'], part[:-5], [0, 0, 0, 0, 0, 0],
                              SHAPE_SCEN)
            return None if r == 'skip' else r
        st, k = part.split('_')
        bits = strat_bits(tier)[int(k)]
        r = strategy_body(cex['n'], st, bits)
        return None if r == 'skip' else r
    except Exception as e:
        return f'{type(e).__name__}: {e}'
