"""C18 - sequential runs are reproducible.

With one job the run is executed twice under the same deterministic oracle
(hash-class and required-token families: the verdict depends on the token
sequence only, not on the order of queries): once under the lazy schedule of
the single-worker pool and once under an arbitrary schedule (how far the
feeder runs ahead of the worker, when results are delivered - S free
choices).  The sequences of accepted inputs (writes of the output file) and
the final inputs must be identical.  z3 all-SAT over verdict and schedule
bits explores all combinations within the budgets.
"""
from vlib.stubs.strat import Decider
from harness import strat_common as SC
from harness import c05 as B

ID = 'C18'
LEVEL = 'model_checking'
FUNCTIONS = ['ddsmt.strategy_hierarchical:reduce', 'ddsmt.strategy_ddmin:reduce',
             'ddsmt.strategy_ddmin:_check_seq',
             'ddsmt.strategy_hierarchical:Producer',
             'ddsmt.smtlib:get_variables_with_sort', 'ddsmt.nodes:bfs']
ASSUMPTIONS = [a for a in B.ASSUMPTIONS] + [
    'known finding C18-fresh-name-node-id: candidates are compared modulo the '
    'number inside x<N>__fresh symbols (the raw difference is replayed as '
    'KNOWN-FINDING on every run)',
    'timing perturbations are modelled as scheduling choices of the '
    'single-worker pool (prefetch depth of the task feeder, delivery delay); '
    'tasks execute in submission order',
]
OUTSIDE = ['independence from PYTHONHASHSEED: only sampled (partition '
           'hashseed runs separate interpreters under a handful of seeds - '
           'string hashing cannot be made symbolic inside one); process ids: '
           'not examined',
           'more than S scheduling choices']
RULE = B.RULE

CONFIGS = [
    ('hierarchical', 'a', 'core'), ('hierarchical', 'b', 'mix'),
    ('hierarchical', 'b', 'elim'), ('hierarchical', 'c', 'erase'),
    ('hybrid', 'a', 'core'), ('hybrid', 'd', 'mix'), ('ddmin', 'c', 'erase'),
    ('ddmin', 'b', 'mix'), ('hierarchical', 'd', 'fresh'),
]


def bounds(tier):
    return {'V': 6 if tier == 'quick' else 8,
            'S': 5 if tier == 'quick' else 7}


class _Clock:
    """time.time() for the strategy modules: advances by 1 per call plus a
    perturbation chosen by the decider (how long the command / the machine
    took)."""

    def __init__(self, decider):
        self.d = decider
        self.t = 1000.0

    def time(self):
        self.t += 1.0 + (7.0 if self.d.bit() else 0.0)
        return self.t

    def __getattr__(self, name):
        import time
        return getattr(time, name)


def two_runs(vec, st, sc, ms, oracle, V, S, norm_fresh=True, clock=False):
    reserved = V if oracle.startswith('hash') else 0
    outs = []
    read = set()
    for quiet in (True, False):
        # both runs start like a fresh process: node ids count from zero
        import ddsmt.nodes as _N
        _N.Node._Node__ID_COUNTER.value = 0
        d = Decider(S, replay=list(vec), reserved=reserved)
        if oracle == 'req':
            # the oracle draws its bits sequentially first; the scheduler
            # bits follow - silence only the scheduler
            d.budget = V + S
        env = SC.setup(d, st, 1, V, sc, ms, oracle=oracle, maxwrites=40,
                       norm_fresh=norm_fresh)
        d.quiet_sched = quiet
        if quiet or clock:
            env.mp.d = _Quiet()     # clock runs: only the clock is perturbed
        restore_clock = None
        if clock:
            # statistics as with -v (mutator run times are recorded) and a
            # clock whose readings are perturbed in the second run
            import logging
            from ddsmt import strategy_hierarchical, strategy_ddmin
            lg = logging.getLogger()
            old_level = lg.level
            flt = (lambda record: False)
            lg.addFilter(flt)
            lg.setLevel(logging.INFO)
            ck = _Clock(_Quiet() if quiet else d)
            old_t = (strategy_hierarchical.time, strategy_ddmin.time)
            strategy_hierarchical.time = ck
            strategy_ddmin.time = ck

            def restore_clock():
                strategy_hierarchical.time, strategy_ddmin.time = old_t
                lg.setLevel(old_level)
                lg.removeFilter(flt)
        try:
            try:
                final = SC.run_strategy(env, st)
                ft = SC.tokens(final)
                if norm_fresh:
                    ft = SC._FRESH.sub('x#__fresh', ft)
                outs.append((list(env.writes), ft))
            except SC.Runaway:
                outs.append('runaway')
        finally:
            env.restore()
            if restore_clock:
                restore_clock()
        read |= d.read
    if 'runaway' in outs:
        return 'skip', read
    a, b = outs
    if a != b:
        return (f'sequential runs differ under a different timing: lazy '
                f'schedule writes {a[0]!r} and ends with {a[1]!r}; perturbed '
                f'schedule writes {b[0]!r} and ends with {b[1]!r}'), read
    return None, read


def _adv_set_class(decider):
    """A set whose iteration order is determined by its elements and a salt
    chosen by the decider (one of four, once per run): a sample of what a
    different PYTHONHASHSEED does to
    a set of strings or nodes.  Installed as the name ``set`` in the ddsmt
    modules, so ``set(...)`` calls build it (set displays and
    comprehensions do not - stated in the evidence)."""
    import collections.abc
    mode = []

    class AdvSet(collections.abc.MutableSet):
        def __init__(self, it=()):
            self._d = {}
            for x in it:
                self._d[x] = None

        @classmethod
        def _from_iterable(cls, it):
            return cls(it)

        def __contains__(self, x):
            return x in self._d

        def __len__(self):
            return len(self._d)

        def __iter__(self):
            items = list(self._d)
            if len(items) > 1:
                # the order is a function of the elements and of a salt
                # chosen once per run (two bits: four salts) - like the
                # iteration order of a hashed set under a hash seed
                if not mode:
                    mode.append(2 * int(decider.bit()) + int(decider.bit()))
                salt = 'ABCD'[mode[0]]
                import hashlib
                items.sort(key=lambda x: hashlib.md5(
                    (salt + (x if isinstance(x, str) else x.__str__()))
                    .encode('utf8', 'replace')).digest())
            return iter(items)

        def add(self, x):
            self._d[x] = None

        def discard(self, x):
            self._d.pop(x, None)

        def update(self, *its):
            for it in its:
                for x in it:
                    self._d[x] = None

        def union(self, *its):
            r = AdvSet(self._d)
            r.update(*its)
            return r

        def difference(self, *its):
            r = AdvSet(self._d)
            for it in its:
                for x in it:
                    r.discard(x)
            return r

        def intersection(self, *its):
            r = AdvSet(self._d)
            for it in its:
                keep = set(it)
                r = AdvSet(x for x in r._d if x in keep)
            return r

        def copy(self):
            return AdvSet(self._d)

        def __repr__(self):
            return 'AdvSet(%r)' % list(self._d)

    return AdvSet


def setorder_runs(vec, st, sc, V, S, oracle='hash0', ms='all'):
    """The same run with every ``set(...)`` of the ddsmt modules iterating
    in insertion order, and in an order chosen by the decider."""
    import sys
    # every ddsmt module must be loaded before the name ``set`` is replaced
    from ddsmt import cli, mutators as _m        # noqa: F401
    for _g, (_mod, _reg) in _m.get_all_mutators().items():
        pass
    outs = []
    read = set()
    for quiet in (True, False):
        import ddsmt.nodes as _N
        _N.Node._Node__ID_COUNTER.value = 0
        d = Decider(S, replay=list(vec), reserved=V)
        cls = _adv_set_class(_Quiet() if quiet else d)
        mods = [m for n, m in list(sys.modules.items())
                if n.startswith('ddsmt.') and m is not None]
        for m in mods:
            m.__dict__['set'] = cls
        try:
            env = SC.setup(d, st, 1, V, sc, ms, oracle=oracle,
                           maxwrites=60, norm_fresh=True)
            env.mp.d = _Quiet()
            try:
                final = SC.run_strategy(env, st)
                outs.append((list(env.writes),
                             SC._FRESH.sub('x#__fresh', SC.tokens(final))))
            except SC.Runaway:
                outs.append('runaway')
            finally:
                env.restore()
        finally:
            for m in mods:
                m.__dict__.pop('set', None)
            from ddsmt import smtlib
            smtlib.reset_information()
        read |= d.read
    if 'runaway' in outs:
        return 'skip', read
    a, b = outs
    if a != b:
        return (f'the run depends on the iteration order of a set: insertion '
                f'order writes {a[0]!r} and ends with {a[1]!r}; another order '
                f'writes {b[0]!r} and ends with {b[1]!r}'), read
    return None, read


def make_setorder(st, sc, tier, oracle='hash0', ms='all'):
    V, S = (8, 2) if tier == "quick" else (10, 2)

    def run():
        from vlib.engine import explore_choices
        return explore_choices(
            lambda vec: setorder_runs(vec, st, sc, V, S, oracle, ms), V + S,
            budget_s=170 if tier == 'quick' else 850)
    return run


class _Quiet:
    """Scheduler decisions all default (lazy schedule)."""

    def bit(self, default=False):
        return default

    def choice(self, n):
        return 0


def make_run(st, sc, ms, oracle, tier, clock=False, pin=()):
    b = bounds(tier)
    V = len(SC.KEYS[sc]) if oracle == 'req' else b['V']
    S = b['S'] + (1 if clock else 0)
    if clock and oracle != 'req':
        V = V - 1

    def once(vec):
        return two_runs(vec, st, sc, ms, oracle, V, S, clock=clock)

    def run():
        from vlib.engine import explore_choices
        return explore_choices(once, V + S,
                               budget_s=170 if tier == 'quick' else 850,
                               pin=pin)
    return run


SEED_SCRIPT = r'''
import sys, json
sys.path.insert(0, %(verif)r); sys.path.insert(0, %(repo)r)
sys.argv = ['ddsmt', 'in.smt2', 'out.smt2', 'cmd']
from vlib.stubs.strat import Decider
from harness import strat_common as SC
from harness import c15 as P
out = {}
from ddsmt import mutators as _M
SC.MUTSETS['_all'] = [c for c, _ in P.all_mutators()]
SC.MUTSETS['_theory'] = [c for g, (mod, reg) in _M.get_all_mutators().items()
                         if g not in ('core', 'smtlib') for c in reg]
for cfg in %(cfgs)r:
    st, sc = cfg[0], cfg[1]
    ms = cfg[2] if len(cfg) > 2 else ('_theory' if sc == 'g' else '_all')
    d = Decider(0, replay=%(bits)r, reserved=8)
    env = SC.setup(d, st, 1, 8, sc, ms,
                   oracle='hash0', maxwrites=60, norm_fresh=True)
    try:
        try:
            final = SC.run_strategy(env, st)
            out['_'.join(cfg)] = [env.writes, SC.tokens(final)]
        except SC.Runaway:
            out['_'.join(cfg)] = 'runaway'
    finally:
        env.restore()
print('RESULT' + json.dumps(out))
'''


def run_hashseed(tier):
    """Auxiliary (separate interpreters, concrete): the same runs with all
    mutators enabled under different PYTHONHASHSEED values go through the
    same accepted inputs.  String hashing cannot be made symbolic inside one
    interpreter, so this part is sampling over seeds."""
    import json
    import os
    import subprocess
    import sys
    import time
    t0 = time.time()
    verif = os.path.dirname(os.path.dirname(os.path.abspath(__file__)))
    repo = os.environ.get('VERIF_REPO', '/repo')
    cfgs = [('hierarchical', 'a'), ('hierarchical', 'b'), ('hybrid', 'd'),
            ('ddmin', 'c'), ('hierarchical', 'e'), ('hierarchical', 'g'),
            ('hybrid', 'g'), ('hierarchical', 'm'), ('ddmin', 'm'),
            ('hierarchical', 'q'), ('ddmin', 'n'), ('hierarchical', 'r'),
            ('ddmin', 'r'), ('hierarchical', 'r', 'sort'),
            ('ddmin', 'r', 'sort'), ('hierarchical', 'q', 'late'),
            ('hierarchical', 'c', 'sort')]
    seeds = [0, 1, 2, 3, 7, 11] if tier == 'quick' else list(range(24))
    results = {}
    bad = None
    n = 0
    for bits in ([1] * 8, [1, 0, 1, 1, 0, 1, 1, 0], [0, 1, 1, 0, 1, 1, 0, 1],
                 [1, 1, 0, 1, 1, 0, 0, 1]):
        ref = None
        for seed in seeds:
            env = dict(os.environ)
            env['PYTHONHASHSEED'] = str(seed)
            code = SEED_SCRIPT % {'verif': verif, 'repo': repo, 'cfgs': cfgs,
                                  'bits': bits}
            p = subprocess.run([sys.executable, '-c', code], env=env,
                               stdout=subprocess.PIPE, stderr=subprocess.PIPE,
                               text=True, timeout=300)
            line = [l for l in p.stdout.splitlines() if l.startswith('RESULT')]
            if not line:
                return {'status': 'UNKNOWN', 'cex': None, 'paths': n,
                        'paths_ok': n, 'samples': [], 'solver_checks': 0,
                        'solver_seconds': 0.0,
                        'engine_error': 'child failed: ' + p.stderr[-500:],
                        'wall_s': round(time.time() - t0, 2)}
            res = json.loads(line[0][6:])
            n += len(res)
            if ref is None:
                ref = res
            elif res != ref and bad is None:
                k = [k for k in res if res[k] != ref[k]][0]
                bad = ({'seed': seed, 'bits': bits, 'config': k},
                       f'PYTHONHASHSEED={seed} vs {seeds[0]}: run {k} goes '
                       f'through different accepted inputs: {res[k]!r} vs '
                       f'{ref[k]!r}')
    return {'status': 'VIOLATED' if bad else 'CONFIRMED',
            'cex': bad[0] if bad else None,
            'exc': {'type': 'Violation', 'msg': bad[1][:1500]} if bad else None,
            'paths': n, 'paths_ok': n,
            'samples': [{'seeds': seeds, 'configs': cfgs}],
            'solver_checks': 0, 'solver_seconds': 0.0,
            'wall_s': round(time.time() - t0, 2),
            'note': 'separate interpreters, sampled seeds (auxiliary)'}


def partitions(tier):
    parts = [{'name': 'hashseed', 'kind': 'native',
              'run': (lambda: run_hashseed(tier)), 'budget_s': 600}]
    from harness import c10
    for cc in (False, True):
        # the default time limit leaves the documented slack
        # (1.5 x (golden run time + 1 s)): small delays of the command do not
        # change verdicts
        parts.append({'name': f'slack_cc{int(cc)}',
                      'fn': c10.make_golden(1, cc, False),
                      'budget_s': 170 if tier == 'quick' else 850,
                      'bounds': {'golden_run_time': 'symbolic real'}})
    for (st, sc, ms) in [('hierarchical', 'a', 'core'),
                         ('hierarchical', 'c', 'erase'),
                         ('hybrid', 'b', 'mix'),
                         ('hierarchical', 'g', 'bvbool')]:
        for oracle in ('hash0', 'hash1'):
          import itertools
          for pin in ([()] if tier == 'quick' else
                      list(itertools.product((0, 1), repeat=3))):
            sfx = ('_p' + ''.join(map(str, pin))) if pin else ''
            parts.append({'name': f'clock_{st}_{sc}_{ms}_{oracle}{sfx}',
                          'kind': 'choices',
                          'run': make_run(st, sc, ms, oracle, tier, True,
                                          pin),
                          'budget_s': 170 if tier == 'quick' else 850,
                          'bounds': {'strategy': st, 'script': sc,
                                     'mutators': ms, 'oracle': oracle,
                                     'clock': 'perturbed', **bounds(tier)}})
    for _cfg in [('hierarchical', 'm', 'hash0'),
                          ('ddmin', 'm', 'hash0'), ('hybrid', 'g', 'hash0'),
                          ('ddmin', 'b', 'hash0'), ('hierarchical', 'd', 'hash0'),
                          ('ddmin', 'n', 'hash0'), ('ddmin', 'n', 'hash1'),
                          ('hierarchical', 'n', 'hash1'),
                          ('hierarchical', 'q', 'hash0'),
                          ('hierarchical', 'q', 'hash1'),
                          ('ddmin', 'q', 'hash1'),
                          ('hierarchical', 'q', 'hash0', 'late'),
                          ('hierarchical', 'q', 'hash1', 'late'),
                          ('ddmin', 'q', 'hash0', 'late'),
                          ('hierarchical', 'g', 'hash0', 'bvbool'),
                          ('hierarchical', 'b', 'hash0', 'elim'),
                          ('hierarchical', 'r', 'hash0', 'late'),
                          ('hierarchical', 'r', 'hash1')]:
      for (st, sc, orc, ms) in [tuple(list(_cfg) + ['all'])[:4]]:
        parts.append({'name': f'setorder_{st}_{sc}_{orc}'
                      + ('' if ms == 'all' else '_' + ms), 'kind': 'choices',
                      'run': make_setorder(st, sc, tier, orc, ms),
                      'budget_s': 170 if tier == 'quick' else 850,
                      'bounds': {'strategy': st, 'script': sc,
                                 'mutators': 'all', 'set_order': 'adversarial'}})
    import itertools
    pins = [()] if tier == 'quick' else list(
        itertools.product((0, 1), repeat=3))
    for (st, sc, ms) in CONFIGS:
        for oracle in ('hash0', 'hash1', 'req'):
          for pin in pins:
            sfx = ('_p' + ''.join(map(str, pin))) if pin else ''
            parts.append({'name': f'{st}_{sc}_{ms}_{oracle}{sfx}',
                          'kind': 'choices',
                          'run': make_run(st, sc, ms, oracle, tier, False,
                                          pin),
                          'budget_s': 170 if tier == 'quick' else 850,
                          'bounds': {'strategy': st, 'script': sc,
                                     'mutators': ms, 'oracle': oracle,
                                     'jobs': 1, **bounds(tier)}})
    return parts


def replay(part, cex):
    import os
    if part == 'hashseed':
        r = run_hashseed(os.environ.get('VERIF_TIER_REPLAY', 'quick'))
        return r['exc']['msg'] if r.get('exc') else None
    if part.startswith('slack_'):
        from harness import c10
        return c10.replay('golden_' + part[6:] + '_gto0', cex)
    if part.startswith('setorder_'):
        f = part.split('_')
        st, sc, orc = f[1:4]
        ms = f[4] if len(f) > 4 else 'all'
        tier = os.environ.get('VERIF_TIER_REPLAY', 'quick')
        V, S = (8, 2) if tier == "quick" else (10, 2)
        try:
            r, _ = setorder_runs(cex['bits'], st, sc, V, S, orc, ms)
        except Exception as e:
            return f'{type(e).__name__}: {e}'
        return None if r in (None, 'skip') else r
    raw = part.startswith('raw_')
    if raw:
        part = part[4:]
    clock = part.startswith('clock_')
    if clock:
        part = part[6:]
    st, sc, ms, oracle = part.split('_')[:4]
    tier = os.environ.get('VERIF_TIER_REPLAY', 'quick')
    b = bounds(tier)
    V = len(SC.KEYS[sc]) if oracle == 'req' else b['V']
    if clock and oracle != 'req':
        V = V - 1
    try:
        r, _ = two_runs(cex['bits'], st, sc, ms, oracle, V,
                        b['S'] + (1 if clock else 0), norm_fresh=not raw,
                        clock=clock)
    except Exception as e:
        return f'{type(e).__name__}: {e}'
    return None if r in (None, 'skip') else r
