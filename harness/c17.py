"""C17 - rewrites documented as identities preserve sort and value.

E2: every instance of an instance family is pushed through the *real*
pipeline (parse_smtlib -> collect_information -> mutator.filter ->
mutator.mutations -> replacement node -> rendering); the solver then decides
``(assert (not (= ORIGINAL REPLACEMENT)))`` over the declared (uninterpreted)
operands: ``unsat`` means equal value under every assignment and every
interpretation of the declared predicates/functions; a sort error means the
sort is not preserved; ``sat`` yields the assignment that separates them.
Operand values are quantified by z3; widths, indices and constant values are
enumerated by the families up to the stated bounds.
"""
import itertools
import time

ID = 'C17'
LEVEL = 'translation_validation'
FUNCTIONS = [
    'ddsmt.mutators_bv:BVNormalizeConstants', 'ddsmt.mutators_bv:BVEvalExtend',
    'ddsmt.mutators_bv:BVExtractConstants',
    'ddsmt.mutators_bv:BVExtractZeroExtend', 'ddsmt.mutators_bv:BvMergeExtend',
    'ddsmt.mutators_bv:BVMergeReducedBW', 'ddsmt.mutators_bv:BVDoubleNegation',
    'ddsmt.mutators_bv:BVReflexiveNand', 'ddsmt.mutators_bv:BVIteToBVComp',
    'ddsmt.mutators_bv:BVElimBVComp',
    'ddsmt.mutators_boolean:BoolDoubleNegation',
    'ddsmt.mutators_boolean:BoolDeMorgan',
    'ddsmt.mutators_boolean:BoolEliminateFalseEquality',
    'ddsmt.mutators_boolean:BoolXOREliminateBinary',
    'ddsmt.mutators_boolean:BoolNegateQuantifier',
    'ddsmt.mutators_boolean:BoolEliminateImplication',
    'ddsmt.mutators_arithmetic:ArithmeticNegateRelation',
    'ddsmt.mutators_smtlib:InlineDefinedFuns',
    'ddsmt.mutators_smtlib:LetSubstitution',
    'ddsmt.mutators_datatypes:RemoveDatatypeIdentity',
    'ddsmt.mutators_fp:FPShortSort', 'ddsmt.smtlib:get_defined_fun',
    'ddsmt.smtlib:get_bv_constant_value', 'ddsmt.smtlib:get_bv_width',
    'ddsmt.nodes:substitute']
ASSUMPTIONS = [
    'z3 4.x/5.x semantics of SMT-LIB (Core, Ints, Reals, FixedSizeBitVectors, '
    'FloatingPoint, datatypes, quantifiers); thorough tier cross-checks every '
    'query with cvc5',
    'operands are declared constants or applications of declared functions '
    '(the solver quantifies over their values and interpretations); operand '
    'shapes beyond that (depth > 1) are not enumerated',
    'n-ary forms of =>, xor, (= false ..), bvcomp-equalities and chains of '
    'relations are outside ("documented binary form")',
    'a proposal on which the mutator raises is reported under C04, not here',
]
OUTSIDE = ['bit-widths above the bound (quick 5, thorough 16) for all families '
           'but BVExtractZeroExtend / BvMergeExtend, whose index arithmetic is '
           'decided for symbolic widths, amounts and indices up to 99 '
           '(symidx_*)',
           'operand terms of depth > 1']

RULE = ('one evaluation = one (instance, proposal) pair produced by the real '
        'mutator and decided by one z3 query; distinct = different instance '
        'text; non-trivial = the mutator accepted the instance and proposed a '
        'replacement different from the original')


def bounds(tier):
    return {'max_width': 5 if tier == 'quick' else 16,
            'max_ext': 3 if tier == 'quick' else 8}


# --------------------------------------------------------------- families
# An instance: (decls, term, sort) - the script is decls + an assert that
# contains ``term``; sort is None for Bool terms.

def bvconsts(w, full=True):
    """Every constant of width w in every notation that can express it."""
    vals = range(2 ** w) if (full and w <= 4) else sorted(
        {0, 1, 2, 2 ** w - 1, 2 ** (w - 1), 2 ** (w - 1) - 1, (2 ** w) // 3})
    for v in vals:
        if v >= 2 ** w:
            continue
        yield '#b' + format(v, f'0{w}b')
        yield f'(_ bv{v} {w})'
        if w % 4 == 0:
            yield '#x' + format(v, f'0{w // 4}x')
            if any(c in 'abcdef' for c in format(v, 'x')):
                yield '#x' + format(v, f'0{w // 4}X')


def fam_norm(b):
    for w in range(1, b['max_width'] + 1):
        for c in bvconsts(w):
            if c.startswith('('):
                continue
            yield ('', c, f'(_ BitVec {w})')


def fam_eval_extend(b):
    for w in range(1, b['max_width'] + 1):
        for k in range(0, b['max_ext'] + 1):
            for op in ('zero_extend', 'sign_extend'):
                for c in bvconsts(w, full=(w <= 3)):
                    yield ('', f'((_ {op} {k}) {c})', f'(_ BitVec {w + k})')


def fam_extract_const(b):
    for w in range(1, b['max_width'] + 1):
        for i in range(w):
            for j in range(i + 1):
                for c in bvconsts(w, full=(w <= 3)):
                    yield ('', f'((_ extract {i} {j}) {c})',
                           f'(_ BitVec {i - j + 1})')


def fam_extract_zext(b):
    for w in range(1, b['max_width'] + 1):
        for k in range(0, b['max_ext'] + 1):
            for i in range(w + k):
                for j in range(i + 1):
                    for x, d in (('x', f'(declare-const x (_ BitVec {w}))'),
                                 ('(bvadd x y)',
                                  f'(declare-const x (_ BitVec {w}))'
                                  f'(declare-const y (_ BitVec {w}))')):
                        yield (d, f'((_ extract {i} {j}) ((_ zero_extend {k}) '
                                  f'{x}))', f'(_ BitVec {i - j + 1})')


def fam_merge_extend(b):
    for w in range(1, min(b['max_width'], 4) + 1):
        d = f'(declare-const x (_ BitVec {w}))'
        for op in ('zero_extend', 'sign_extend'):
            for k1 in range(0, b['max_ext'] + 1):
                for k2 in range(0, b['max_ext'] + 1):
                    yield (d, f'((_ {op} {k1}) ((_ {op} {k2}) x))',
                           f'(_ BitVec {w + k1 + k2})')
                    yield (d, f'((_ {op} {k1}) ((_ {op} {k2}) ((_ {op} 1) x)))',
                           f'(_ BitVec {w + k1 + k2 + 1})')
        # mixed nesting must not be merged into one extension
        for k1 in range(0, 3):
            for k0 in range(0, 3):
                yield (d, f'((_ sign_extend {k1}) ((_ zero_extend {k0}) x))',
                       f'(_ BitVec {w + k1 + k0})')
                yield (d, f'((_ zero_extend {k1}) ((_ sign_extend {k0}) x))',
                       f'(_ BitVec {w + k1 + k0})')
                yield (d, f'((_ sign_extend {k1}) ((_ sign_extend 1) '
                          f'((_ zero_extend {k0}) x)))',
                       f'(_ BitVec {w + k1 + k0 + 1})')
        for k1 in range(0, 3):
            for k2 in range(0, 3):
                yield (d, f'((_ zero_extend {k1}) ((_ zero_extend {k2}) '
                          f'((_ sign_extend 1) x)))',
                       f'(_ BitVec {w + k1 + k2 + 1})')
                yield (d, f'((_ sign_extend {k1}) ((_ sign_extend {k2}) '
                          f'((_ zero_extend 1) x)))',
                       f'(_ BitVec {w + k1 + k2 + 1})')


def fam_double_neg(b):
    for w in range(1, b['max_width'] + 1):
        d = (f'(declare-const x (_ BitVec {w}))'
             f'(declare-fun f ((_ BitVec {w})) (_ BitVec {w}))')
        for op in ('bvnot', 'bvneg'):
            for x in ('x', '(f x)', '(bvadd x x)'):
                yield (d, f'({op} ({op} {x}))', f'(_ BitVec {w})')
        yield (d, '(bvnot (bvneg x))', f'(_ BitVec {w})')
        yield (d, '(bvneg (bvnot x))', f'(_ BitVec {w})')


def fam_nand(b):
    for w in range(1, b['max_width'] + 1):
        d = (f'(declare-const x (_ BitVec {w}))'
             f'(declare-const y (_ BitVec {w}))')
        for x in ('x', '(bvadd x y)'):
            yield (d, f'(bvnand {x} {x})', f'(_ BitVec {w})')
        yield (d, '(bvnand x y)', f'(_ BitVec {w})')


def fam_ite_bvcomp(b):
    ones = ['#b1', '(_ bv1 1)']
    zeros = ['#b0', '(_ bv0 1)']
    for w in range(1, b['max_width'] + 1):
        d = (f'(declare-const a (_ BitVec {w}))'
             f'(declare-const b (_ BitVec {w}))')
        for o in ones:
            for z in zeros:
                yield (d, f'(ite (= a b) {o} {z})', '(_ BitVec 1)')
                yield (d, f'(ite (= a b) {z} {o})', '(_ BitVec 1)')
                yield (d, f'(ite (= (bvadd a b) b) {o} {z})', '(_ BitVec 1)')
    d = '(declare-const a (_ BitVec 2))(declare-const b (_ BitVec 2))'
    yield (d, '(ite (= a b) #b01 #b00)', '(_ BitVec 2)')
    yield (d, '(ite (= a b) #x1 #x0)', '(_ BitVec 4)')


def fam_elim_bvcomp(b):
    for w in range(1, b['max_width'] + 1):
        d = (f'(declare-const a (_ BitVec {w}))'
             f'(declare-const b (_ BitVec {w}))'
             f'(declare-const c (_ BitVec 1))')
        for c in ('#b1', '#b0', '(_ bv1 1)', '(_ bv0 1)'):
            yield (d, f'(= {c} (bvcomp a b))', None)
            yield (d, f'(= {c} (bvcomp (bvadd a b) b))', None)


def fam_bool(b):
    d = ('(declare-const p Bool)(declare-const q Bool)(declare-const r Bool)'
         '(declare-fun P (Int) Bool)(declare-const i Int)')
    yield (d, '(not (not p))', None)
    yield (d, '(not (not (P i)))', None)
    for op in ('and', 'or'):
        yield (d, f'(not ({op} p))', None)
        yield (d, f'(not ({op} p q))', None)
        yield (d, f'(not ({op} p q r))', None)
        yield (d, f'(not ({op} (P i) (not q) r))', None)
    for a, c in itertools.product(('p', 'false', 'true', '(P i)'), repeat=2):
        yield (d, f'(= {a} {c})', None)
    for a, c in itertools.product(('p', 'q', 'false', 'true', '(P i)'),
                                  repeat=2):
        yield (d, f'(xor {a} {c})', None)
        yield (d, f'(=> {a} {c})', None)


def fam_quant(b):
    d = ('(declare-fun P (Int) Bool)(declare-fun Q (Int Int) Bool)'
         '(declare-const y Int)')
    for q in ('exists', 'forall'):
        yield (d, f'(not ({q} ((x Int)) (P x)))', None)
        yield (d, f'(not ({q} ((x Int)) (Q x y)))', None)
        yield (d, f'(not ({q} ((x Int) (z Int)) (Q x z)))', None)
        yield (d, f'(not ({q} ((x Int)) (not (P x))))', None)


def fam_arith_neg(b):
    for srt in ('Int', 'Real'):
        d = f'(declare-const a {srt})(declare-const b {srt})'
        for rel in ('=', '<', '>', '>=', '<=', 'distinct'):
            yield (d, f'(not ({rel} a b))', None)
            yield (d, f'(not ({rel} (+ a b) b))', None)


def fam_inline(b):
    d = ('(declare-const a Int)(declare-const b Int)(declare-const c Int)'
         '(define-fun f ((a Int) (b Int)) Int (+ (* 2 a) b))'
         '(define-fun g ((x Int)) Int (- x 1))'
         '(define-fun k () Int 5)'
         '(define-fun h ((a Int) (b Int)) Bool (< a b))')
    args = ['a', 'b', 'c', '(+ a 1)', '(+ b a)', '(g a)', 'k', '7']
    for x, y in itertools.product(args, repeat=2):
        yield (d, f'(f {x} {y})', 'Int')
    for x in args:
        yield (d, f'(g {x})', 'Int')
    for x, y in itertools.product(args[:5], repeat=2):
        yield (d, f'(h {x} {y})', None)
    yield (d, 'k', 'Int')
    yield (d, '(f (f a b) (f b a))', 'Int')
    # bodies with binders: arguments must not be captured
    d2 = ('(declare-const y Int)(declare-const a Int)'
          '(declare-fun Q (Int Int) Bool)'
          '(define-fun m ((a Int)) Int (let ((y 1)) (+ a y)))'
          '(define-fun n ((a Int)) Bool (forall ((y Int)) (Q a y)))'
          '(define-fun o ((a Int)) Int (let ((a 2)) a))')
    for x in ('y', 'a', '(+ y 1)', '3'):
        yield (d2, f'(m {x})', 'Int')
        yield (d2, f'(n {x})', None)
        yield (d2, f'(o {x})', 'Int')
    if b['max_width'] > 4:
        for x, y, z in itertools.product(args[:5], repeat=3):
            yield (d + '(define-fun t ((a Int) (b Int) (c Int)) Int '
                   '(+ a (* 3 b) (* 5 c)))', f'(t {x} {y} {z})', 'Int')


def fam_let(b):
    d = '(declare-const y Int)(declare-const z Int)(declare-const x Int)'
    terms = ['1', 'y', '(+ y 1)', '(* z y)']
    bodies = ['u', '(+ u u)', '(+ u y)', '(* u (+ v 1))', '(+ v 2)']
    for t in terms:
        for body in bodies:
            yield (d, f'(let ((u {t})) {body.replace("v", "z")})', 'Int')
    for t1, t2 in itertools.product(terms, repeat=2):
        for body in bodies:
            yield (d, f'(let ((u {t1}) (v {t2})) {body})', 'Int')
    # nested lets
    yield (d, '(let ((u (+ y 1))) (let ((v (+ u 1))) (+ u v)))', 'Int')
    yield (d, '(let ((u 1)) (let ((u 2)) u))', 'Int')
    # bindings that mention a name bound by the same let
    yield (d, '(let ((x (+ y 1)) (y 2)) (+ x y))', 'Int')
    yield (d, '(let ((x (+ x 1))) (* x 2))', 'Int')
    yield (d, '(let ((y x) (x y)) (- x y))', 'Int')
    # capture by binders inside the body
    yield (d, '(let ((u y)) (let ((y 3)) (+ u y)))', 'Int')
    yield (d, '(let ((u (+ y 1))) (let ((w 3) (y 4)) (+ u y w)))', 'Int')
    yield (d, '(let ((u y)) (+ u (let ((u 7)) u)))', 'Int')
    yield ('(declare-const y Int)(declare-fun Q (Int Int) Bool)',
           '(let ((u y)) (forall ((y Int)) (Q u y)))', None)
    yield ('(declare-const y Int)(declare-fun Q (Int Int) Bool)',
           '(let ((u y)) (exists ((u Int)) (Q u y)))', None)
    yield ('(declare-const y Int)(declare-fun Q (Int Int) Bool)',
           '(let ((u (+ y 1))) (forall ((k Int)) (Q u k)))', None)


def fam_dt(b):
    d = ('(declare-datatype A ((C (s Int) (t Bool)) (D (u Int))))'
         '(declare-const i Int)(declare-const p Bool)(declare-const a A)')
    yield (d, '(s (C i p))', 'Int')
    yield (d, '(t (C i p))', None)
    yield (d, '(u (D i))', 'Int')
    yield (d, '(s (C (+ i 1) (not p)))', 'Int')
    yield (d, '(u (D (s (C i p))))', 'Int')
    d2 = ('(declare-datatypes ((L 0) (M 0)) (((nil) (cons (hd Int) (tl L))) '
          '((mk (fst L) (snd Int)))))(declare-const l L)(declare-const i Int)')
    yield (d2, '(hd (cons i l))', 'Int')
    yield (d2, '(tl (cons i l))', 'L')
    yield (d2, '(snd (mk l i))', 'Int')
    yield (d2, '(fst (mk l i))', 'L')
    yield (d2, '(hd (tl (cons i (cons 2 nil))))', 'Int')
    # a selector applied to a term built with *another* constructor: its
    # value is unspecified, it is not the argument
    d3 = ('(declare-datatype T ((mk-i (geti Int)) (mk-b (getb Bool)) '
          '(mk-p (fstp Int) (sndp Int))))(declare-const t T)'
          '(declare-const i Int)(declare-const j Int)')
    yield (d3, '(geti (mk-b true))', 'Int')
    yield (d3, '(getb (mk-i i))', 'Bool')
    yield (d3, '(geti (mk-p i j))', 'Int')
    yield (d3, '(sndp (mk-i i))', 'Int')
    yield (d3, '(sndp (mk-p i j))', 'Int')
    yield (d3, '(fstp (mk-p (geti (mk-i j)) i))', 'Int')


FAMILIES = {
    'norm': ('mutators_bv', 'BVNormalizeConstants', fam_norm),
    'evalext': ('mutators_bv', 'BVEvalExtend', fam_eval_extend),
    'extractconst': ('mutators_bv', 'BVExtractConstants', fam_extract_const),
    'extractzext': ('mutators_bv', 'BVExtractZeroExtend', fam_extract_zext),
    'mergeext': ('mutators_bv', 'BvMergeExtend', fam_merge_extend),
    'bvdneg': ('mutators_bv', 'BVDoubleNegation', fam_double_neg),
    'nand': ('mutators_bv', 'BVReflexiveNand', fam_nand),
    'itebvcomp': ('mutators_bv', 'BVIteToBVComp', fam_ite_bvcomp),
    'elimbvcomp': ('mutators_bv', 'BVElimBVComp', fam_elim_bvcomp),
    'dneg': ('mutators_boolean', 'BoolDoubleNegation', fam_bool),
    'demorgan': ('mutators_boolean', 'BoolDeMorgan', fam_bool),
    'falseeq': ('mutators_boolean', 'BoolEliminateFalseEquality', fam_bool),
    'xor': ('mutators_boolean', 'BoolXOREliminateBinary', fam_bool),
    'impl': ('mutators_boolean', 'BoolEliminateImplication', fam_bool),
    'negquant': ('mutators_boolean', 'BoolNegateQuantifier', fam_quant),
    'arithneg': ('mutators_arithmetic', 'ArithmeticNegateRelation',
                 fam_arith_neg),
    'inline': ('mutators_smtlib', 'InlineDefinedFuns', fam_inline),
    'let': ('mutators_smtlib', 'LetSubstitution', fam_let),
    'dtident': ('mutators_datatypes', 'RemoveDatatypeIdentity', fam_dt),
}


# ------------------------------------------------------------- pipeline

def proposals(fam, inst):
    """Run the real code on one instance.

    Returns (accepted, [(orig_text, repl_text)], error)."""
    import importlib
    from ddsmt import nodeio, smtlib
    from ddsmt.mutator_utils import apply_simp
    modname, clsname, _ = FAMILIES[fam]
    decls, term, sort = inst
    if sort is None:
        script = f'{decls}(assert {term})'
    else:
        script = f'{decls}(declare-const r__ {sort})(assert (= r__ {term}))'
    exprs = list(nodeio.parse_smtlib(script))
    smtlib.collect_information(exprs)
    target = exprs[-1][1] if sort is None else exprs[-1][1][2]
    assert str(target) == term, (str(target), term)
    mut = getattr(importlib.import_module(f'ddsmt.{modname}'), clsname)()
    if not mut.filter(target):
        return False, [], None
    out = []
    for simp in mut.mutations(target):
        if list(simp.substs.keys()) != [target.id] or simp.fresh_vars:
            return True, out, f'unexpected proposal shape {simp!r}'
        res = apply_simp(exprs, simp)
        new_assert = res[-1]
        repl = new_assert[1] if sort is None else new_assert[1][2]
        out.append((term, str(repl)))
    return True, out, None


def decide(decls, orig, repl, timeout_ms=20000):
    """z3: is (not (= orig repl)) satisfiable?  -> (verdict, detail)"""
    import z3
    q = f'{decls}(assert (not (= {orig} {repl})))'
    s = z3.Solver()
    s.set('timeout', timeout_ms)
    try:
        s.from_string(q)
    except z3.Z3Exception as e:
        return 'sorterror', str(e)[:300]
    r = s.check()
    if str(r) == 'unsat':
        return 'unsat', ''
    if str(r) == 'sat':
        m = s.model()
        return 'sat', ' '.join(f'{d.name()}={m[d]}' for d in m.decls()
                               if d.arity() == 0)[:400]
    return 'unknown', s.reason_unknown()


def decide_cvc5(decls, orig, repl, timeout_s=20):
    import os
    import subprocess
    import tempfile
    logic = '(set-logic ALL)'
    q = f'{logic}{decls}(assert (not (= {orig} {repl})))(check-sat)'
    with tempfile.NamedTemporaryFile('w', suffix='.smt2', delete=False) as f:
        f.write(q)
        name = f.name
    try:
        p = subprocess.run(['cvc5', f'--tlimit={timeout_s * 1000}', name],
                           stdout=subprocess.PIPE, stderr=subprocess.PIPE,
                           text=True, timeout=timeout_s + 10)
        out = (p.stdout + p.stderr).strip()
    except Exception as e:
        out = f'error {e}'
    finally:
        os.unlink(name)
    first = out.splitlines()[0] if out else ''
    if first in ('sat', 'unsat'):
        return first
    return 'unknown:' + out[:200]


def fp_check():
    """FPShortSort: the replacement denotes the same sort (z3 sort
    equality)."""
    import z3
    from ddsmt import nodeio, smtlib
    from ddsmt.mutators_fp import FPShortSort
    res = []
    cands = [(5, 11), (8, 24), (11, 53), (15, 113), (8, 23), (5, 10), (11, 52),
             (3, 5), (24, 8), (11, 5)]
    for eb, sb in cands:
        long_ = f'(_ FloatingPoint {eb} {sb})'
        exprs = list(nodeio.parse_smtlib(f'(declare-const x {long_})'))
        smtlib.collect_information(exprs)
        target = exprs[0][2]
        mut = FPShortSort()
        if not mut.filter(target):
            res.append((long_, None, 'rejected'))
            continue
        for simp in mut.mutations(target):
            short = str(simp.substs[target.id])
            q = (f'(declare-const a {long_})(declare-const b {short})'
                 f'(assert (not (= a b)))')
            s = z3.Solver()
            try:
                s.from_string(q)
                ok = True
            except z3.Z3Exception:
                ok = False
            res.append((long_, short, 'same-sort' if ok else 'sorterror'))
    return res


def mergebw_instances(b):
    for m in range(1, min(b['max_width'], 4) + 1):
        for n in range(0, b['max_ext'] + 1):
            for k in range(0, b['max_ext'] + 1):
                yield (m, n, k)


def mergebw_proposals(inst):
    """BVMergeReducedBW works on a define-fun command: compare the bodies."""
    from ddsmt import nodeio, smtlib
    from ddsmt.mutators_bv import BVMergeReducedBW
    m, n, k = inst
    decls = (f'(declare-const __w (_ BitVec {m}))'
             f'(define-fun _w () (_ BitVec {m + n}) ((_ zero_extend {n}) __w))')
    script = (decls + f'(define-fun w () (_ BitVec {m + n + k}) '
              f'((_ zero_extend {k}) _w))(assert (= w w))')
    exprs = list(nodeio.parse_smtlib(script))
    smtlib.collect_information(exprs)
    target = exprs[2]
    mut = BVMergeReducedBW()
    if not mut.filter(target):
        return decls, False, []
    out = []
    for simp in mut.mutations(target):
        new = simp.substs[target.id]
        if str(new[1]) != 'w' or str(new[3]) != str(target[3]):
            out.append((str(target), str(new)))     # will be a sort error
        else:
            out.append((str(target[4]), str(new[4])))
    return decls, True, out


def run_family(fam, tier):
    t0 = time.time()
    b = bounds(tier)
    n_inst = n_acc = n_q = 0
    qtime = 0.0
    samples = []
    bad = None
    unknown = []
    errors = []
    seen = set()
    if fam == 'fpshort':
        res = fp_check()
        n_inst = len(res)
        for long_, short, v in res:
            if short is not None:
                n_acc += 1
                n_q += 1
                samples.append({'orig': long_, 'repl': short, 'verdict': v})
            if v == 'sorterror' and bad is None:
                bad = {'family': fam, 'instance': ['', long_, 'sort'],
                       'orig': long_, 'repl': short, 'verdict': v}
    elif fam == 'mergebw':
        for inst in mergebw_instances(b):
            n_inst += 1
            decls, acc, props = mergebw_proposals(inst)
            n_acc += 1 if acc else 0
            for orig, repl in props:
                tq = time.time()
                v, detail = decide(decls, orig, repl)
                qtime += time.time() - tq
                n_q += 1
                if len(samples) < 3:
                    samples.append({'decls': decls, 'orig': orig,
                                    'repl': repl, 'verdict': v})
                if v in ('sat', 'sorterror') and bad is None:
                    bad = {'family': fam, 'instance': list(inst),
                           'orig': orig, 'repl': repl, 'verdict': v,
                           'detail': detail}
                elif v == 'unknown':
                    unknown.append({'orig': orig, 'repl': repl,
                                    'why': detail})
    else:
        for inst in FAMILIES[fam][2](b):
            if inst in seen:
                continue
            seen.add(inst)
            n_inst += 1
            try:
                acc, props, err = proposals(fam, inst)
            except Exception as e:
                errors.append({'instance': list(inst),
                               'error': f'{type(e).__name__}: {e}'[:200]})
                continue
            if err:
                errors.append({'instance': list(inst), 'error': err})
            if acc:
                n_acc += 1
            for orig, repl in props:
                if orig == repl:
                    continue
                tq = time.time()
                v, detail = decide(inst[0], orig, repl)
                if tier == 'thorough' and v in ('unsat', 'sat'):
                    v2 = decide_cvc5(inst[0], orig, repl)
                    if v2 in ('sat', 'unsat') and v2 != v:
                        v, detail = 'unknown', f'z3 {v} but cvc5 {v2}'
                qtime += time.time() - tq
                n_q += 1
                if len(samples) < 3:
                    samples.append({'decls': inst[0][:120], 'orig': orig,
                                    'repl': repl, 'verdict': v})
                if v in ('sat', 'sorterror'):
                    if known_region(fam, inst) is not None:
                        continue
                    if bad is None:
                        bad = {'family': fam, 'instance': list(inst),
                               'orig': orig, 'repl': repl, 'verdict': v,
                               'detail': detail}
                elif v == 'unknown':
                    unknown.append({'orig': orig, 'repl': repl,
                                    'why': detail})
    status = 'VIOLATED' if bad else ('UNKNOWN' if unknown else 'CONFIRMED')
    if n_q == 0:
        status = 'VACUOUS'
    return {'status': status, 'cex': bad,
            'exc': {'type': 'Violation', 'msg': str(bad)} if bad else None,
            'paths': n_q, 'paths_ok': n_q - len(unknown), 'samples': samples,
            'solver_checks': n_q, 'solver_seconds': round(qtime, 2),
            'solver_unknown': len(unknown),
            'queries': {'instances': n_inst, 'accepted': n_acc,
                        'proposals_decided': n_q, 'unknown': unknown[:5],
                        'mutator_errors': errors[:5],
                        'n_mutator_errors': len(errors)},
            'wall_s': round(time.time() - t0, 2),
            'engine_error': None if not unknown else
            f'{len(unknown)} queries undecided'}


def run_typed(tier, want=None):
    """The documented-identity mutators at every node of the well-sorted
    scripts of C16's typed generator (other operand shapes and contexts than
    the families above: binders, nested applications, all theories): the
    changed assertion must be equivalent to the original one."""
    import importlib
    from harness import c15, c16
    from ddsmt import smtlib, nodeio, nodes, options, mutators, cli
    from ddsmt.mutator_utils import apply_simp
    setattr(options, '__PARSED_ARGS', options.parse_options(
        mutators, ['in.smt2', 'out.smt2', 'cmd']))
    cli.setup_logging()
    t0 = time.time()
    muts = []
    for mn, cn, _ in FAMILIES.values():
        muts.append((cn, getattr(importlib.import_module('ddsmt.' + mn),
                                 cn)()))
    nq = skipped = nscripts = 0
    qtime = 0.0
    bad = None
    unknown = []
    samples = []
    numsets = ((3, 5, 2), (2, 3, 1), (1, 1, 0)) if tier == 'quick' else \
        ((3, 5, 2), (2, 3, 1), (1, 1, 0), (4, 4, 3), (5, 2, 4), (6, 3, 5))
    for fname in c16.FAMS:
        for nums in numsets:
            if want is not None and want != (fname, list(nums)):
                continue
            exprs = c15.typed_script(fname, nums)
            if exprs is None:
                continue
            exprs = list(nodeio.parse_smtlib(
                nodeio.write_smtlib_to_str(exprs)))
            nscripts += 1
            smtlib.collect_information(exprs)
            ndecl = sum(1 for e in exprs
                        if not (e.has_ident() and e.get_ident() == 'assert'))
            decls = ''.join(e.__str__() for e in exprs[:ndecl])
            for node in list(nodes.dfs(exprs[ndecl:])):
                for cn, m in muts:
                    try:
                        if not m.filter(node):
                            continue
                        props = list(m.mutations(node))
                    except Exception:
                        continue
                    for p in props:
                        new = apply_simp(exprs, p)
                        if len(new) != len(exprs) or any(
                                a.__str__() != b.__str__() for a, b in
                                zip(new[:ndecl], exprs[:ndecl])):
                            skipped += 1
                            continue
                        for a, b in zip(exprs[ndecl:], new[ndecl:]):
                            if a.__str__() == b.__str__():
                                continue
                            tq = time.time()
                            v, d = decide(decls, a[1].__str__(),
                                          b[1].__str__())
                            qtime += time.time() - tq
                            nq += 1
                            if len(samples) < 3:
                                samples.append({'orig': a[1].__str__()[:120],
                                                'repl': b[1].__str__()[:120],
                                                'mutator': cn, 'verdict': v})
                            if v in ('sat', 'sorterror') and bad is None:
                                bad = {'family': fname, 'nums': list(nums),
                                       'mutator': cn,
                                       'orig': a[1].__str__(),
                                       'repl': b[1].__str__(),
                                       'verdict': v, 'detail': d}
                            elif v == 'unknown':
                                unknown.append({'orig': a[1].__str__(),
                                                'repl': b[1].__str__()})
    status = 'VIOLATED' if bad else ('UNKNOWN' if unknown else 'CONFIRMED')
    if nq == 0 and want is None:
        status = 'VACUOUS'
    return {'status': status, 'cex': bad,
            'exc': {'type': 'Violation', 'msg': str(bad)} if bad else None,
            'paths': nq, 'paths_ok': nq - len(unknown), 'samples': samples,
            'solver_checks': nq, 'solver_seconds': round(qtime, 2),
            'solver_unknown': len(unknown),
            'queries': {'instances': nscripts, 'proposals_decided': nq,
                        'proposals_changing_declarations_skipped': skipped,
                        'unknown': unknown[:5]},
            'wall_s': round(time.time() - t0, 2),
            'engine_error': None if not unknown else
            f'{len(unknown)} queries undecided'}


# ------------------------------------------- symbolic widths and indices (E1)
# The rewrites whose replacement is *computed from numerals* (index
# arithmetic) are run on instances whose width, extension amounts and extract
# indices are symbolic integers (1..SYMMAX, CrossHair/z3).  The oracle is a
# bit-level evaluator over the structure of original and replacement: bit p
# of a term is either the constant 0 or bit q of the operand x, with p and q
# linear expressions over the symbolic numerals; the property is asserted for
# a symbolic position p, so one path covers every width in the bound.
SYMMAX = 99
SYMFAMS = {
    'symidx_extract_zext': ('BVExtractZeroExtend', 'zero_extend'),
    'symidx_merge_zext': ('BvMergeExtend', 'zero_extend'),
    'symidx_merge_sext': ('BvMergeExtend', 'sign_extend'),
    'symidx_merge3_zext': ('BvMergeExtend', 'zero_extend'),
    'symidx_merge3_sext': ('BvMergeExtend', 'sign_extend'),
}


class _IllSorted(Exception):
    pass


def _num(n):
    return int(n.data)


def _sym_width(t, w):
    if t.is_leaf():
        if t.data != 'x':
            raise _IllSorted(f'unknown leaf {t.data}')
        return w
    head = t.data[0]
    if head.is_leaf():
        if head.data == '_' and len(t.data) == 3 and t.data[1].data == 'bv0':
            n = _num(t.data[2])
            if n < 1:
                raise _IllSorted('(_ bv0 n) with n < 1')
            return n
        raise _IllSorted(f'unexpected operator {head.data}')
    if len(t.data) != 2 or head.data[0].data != '_':
        raise _IllSorted('unexpected application')
    op = head.data[1].data
    inner = _sym_width(t.data[1], w)
    if op == 'extract' and len(head.data) == 4:
        i, j = _num(head.data[2]), _num(head.data[3])
        if not (0 <= j <= i < inner):
            raise _IllSorted(f'extract indices outside the operand')
        return i - j + 1
    if op in ('zero_extend', 'sign_extend') and len(head.data) == 3:
        k = _num(head.data[2])
        if k < 0:
            raise _IllSorted('negative extension')
        return inner + k
    raise _IllSorted(f'unexpected indexed operator {op}')


def _sym_bit(t, p, w):
    """Bit p of t: None for constant 0, else the index of the bit of x."""
    if t.is_leaf():
        return p
    head = t.data[0]
    if head.is_leaf():
        return None                       # (_ bv0 n)
    op = head.data[1].data
    inner = t.data[1]
    if op == 'extract':
        return _sym_bit(inner, p + _num(head.data[3]), w)
    iw = _sym_width(inner, w)
    if p < iw:
        return _sym_bit(inner, p, w)
    if op == 'zero_extend':
        return None
    return _sym_bit(inner, iw - 1, w)


def symidx_instance(fam, a, b, c, d):
    """(term as nested tuple) of the family for numerals a..d, or None."""
    op = SYMFAMS[fam][1]
    if fam == 'symidx_extract_zext':
        # a: width of x, b: extension, c >= d: extract indices
        if not (0 <= b and 0 <= d <= c < a + b):
            return None
        return (('_', 'extract', c, d), (('_', 'zero_extend', b), 'x'))
    if fam.startswith('symidx_merge3'):
        if not (0 <= b and 0 <= c and 0 <= d):
            return None
        return (('_', op, b), (('_', op, c), (('_', op, d), 'x')))
    if not (0 <= b and 0 <= c):
        return None
    return (('_', op, b), (('_', op, c), 'x'))


def symidx_check(fam, a, b, c, d, p):
    """Shared by the symbolic harness and the concrete replay."""
    import importlib
    from ddsmt import smtlib
    from ddsmt.nodes import Node
    from ddsmt.mutator_utils import apply_simp

    def mk(t):
        if isinstance(t, tuple):
            return Node(*[mk(x) for x in t])
        return Node(t)

    tt = symidx_instance(fam, a, b, c, d)
    if tt is None:
        return 'skip'
    exprs = [mk(('declare-const', 'x', ('_', 'BitVec', a))),
             mk(('assert', ('=', tt, tt)))]
    smtlib.collect_information(exprs)
    target = exprs[1].data[1].data[1]
    mut = getattr(importlib.import_module('ddsmt.mutators_bv'),
                  SYMFAMS[fam][0])()
    if not mut.filter(target):
        return 'skip'
    ow = _sym_width(target, a)
    if not (0 <= p < ow):
        return 'skip'
    ob = _sym_bit(target, p, a)
    for simp in mut.mutations(target):
        if list(simp.substs.keys()) != [target.id] or simp.fresh_vars:
            return f'unexpected proposal shape {simp!r}'
        repl = simp.substs[target.id]
        res = apply_simp(exprs, simp)
        got = res[1].data[1].data[1]
        if got.__str__() != repl.__str__():
            return 'apply_simp did not insert the proposed replacement'
        try:
            rw = _sym_width(repl, a)
        except _IllSorted as e:
            return (f'{target.__str__()} -> {repl.__str__()}: replacement is '
                    f'not well-sorted ({e})')
        if rw != ow:
            return (f'{target.__str__()} -> {repl.__str__()}: width {rw} '
                    f'instead of {ow}')
        rb = _sym_bit(repl, p, a)
        if (ob is None) != (rb is None) or (ob is not None and ob != rb):
            return (f'{target.__str__()} -> {repl.__str__()}: bit {p} is '
                    f'{"0" if rb is None else "x[%s]" % rb} instead of '
                    f'{"0" if ob is None else "x[%s]" % ob}')
    return None


def make_symidx(fam):
    from vlib.engine import assume, Violation

    def h(a: int, b: int, c: int, d: int, p: int):
        assume(1 <= a <= SYMMAX and 0 <= b <= SYMMAX and 0 <= c <= SYMMAX
               and 0 <= d <= SYMMAX and 0 <= p <= 4 * SYMMAX)
        r = symidx_check(fam, a, b, c, d, p)
        if r == 'skip':
            assume(False)
        if r:
            raise Violation(r)
    return h


def _sym_setup():
    from vlib import shims
    shims.install_hash('T')


def _sym_reset():
    from vlib import shims
    from ddsmt import smtlib
    shims.reset_ids()
    smtlib.reset_information()


# ------------------------------------------------ inlining after a change
def run_inline_history(tier):
    """History: the input is queried (filter + mutations on the call), then
    a numeral inside the body of a define-fun is changed by a substitution -
    every other node object, the call included, is shared with the first
    input - and collect_information runs again.  What InlineDefinedFuns now
    offers for the *same* call node is decided against the changed
    definitions."""
    from ddsmt import nodeio, smtlib, nodes
    from ddsmt.nodes import Node
    from ddsmt.mutator_utils import apply_simp
    from ddsmt.mutators_smtlib import InlineDefinedFuns
    t0 = time.time()
    n_q = n_inst = 0
    qtime = 0.0
    bad = None
    unknown = []
    for inst in fam_inline(bounds(tier)):
        decls, term, sort = inst
        if sort is None:
            script = f'{decls}(assert {term})'
        else:
            script = f'{decls}(declare-const r__ {sort})(assert (= r__ {term}))'
        A = list(nodeio.parse_smtlib(script))
        numerals = [x for e in A if e.has_ident()
                    and e.get_ident() == 'define-fun' and len(e) == 5
                    for x in nodes.dfs(e[4]) if x.is_leaf()
                    and x.data.isdigit()]
        if not numerals:
            continue
        smtlib.reset_information()
        smtlib.collect_information(A)
        target = A[-1][1] if sort is None else A[-1][1][2]
        mut = InlineDefinedFuns()
        for x in nodes.dfs(A):
            if mut.filter(x):
                list(mut.mutations(x))
        for num in numerals[:2]:
            B = nodes.substitute(A, {num.id: Node(str(int(num.data) + 3))})
            smtlib.collect_information(B)
            tb = B[-1][1] if sort is None else B[-1][1][2]
            if tb is not target or not mut.filter(tb):
                continue
            n_inst += 1
            dtext = ''.join(e.__str__() for e in B[:-1]
                            if 'r__' not in e.__str__())
            for simp in mut.mutations(tb):
                res = apply_simp(B, simp)
                repl = res[-1][1] if sort is None else res[-1][1][2]
                tq = time.time()
                v, detail = decide(dtext, term, repl.__str__())
                qtime += time.time() - tq
                n_q += 1
                if v in ('sat', 'sorterror') and bad is None:
                    bad = {'instance': list(inst), 'changed': num.data,
                           'decls': dtext, 'orig': term,
                           'repl': repl.__str__(), 'verdict': v,
                           'detail': detail}
                elif v == 'unknown':
                    unknown.append({'orig': term, 'repl': repl.__str__()})
    smtlib.reset_information()
    status = 'VIOLATED' if bad else ('UNKNOWN' if unknown else 'CONFIRMED')
    if n_q == 0:
        status = 'VACUOUS'
    msg = None
    if bad:
        msg = (f'after the body numeral {bad["changed"]} of a define-fun was '
               f'changed and collect_information ran again, InlineDefinedFuns '
               f'offers {bad["orig"]} -> {bad["repl"]} under {bad["decls"]}: '
               f'{bad["verdict"]} {bad["detail"]}')
    return {'status': status, 'cex': bad,
            'exc': {'type': 'Violation', 'msg': msg} if bad else None,
            'paths': n_q, 'paths_ok': n_q - len(unknown),
            'samples': [{'instances_with_history': n_inst}],
            'solver_checks': n_q, 'solver_seconds': round(qtime, 2),
            'solver_unknown': len(unknown),
            'wall_s': round(time.time() - t0, 2),
            'engine_error': None if not unknown else
            f'{len(unknown)} queries undecided'}


def known_region(fam, inst):
    """Regions of open known findings (KNOWN_FINDINGS.jsonl); instances in a
    region are still decided and counted but not re-reported.  (None open.)"""
    return None


def partitions(tier):
    parts = []
    for fam in list(FAMILIES) + ['fpshort', 'mergebw']:
        parts.append({'name': fam, 'kind': 'E2',
                      'run': (lambda fam=fam: run_family(fam, tier)),
                      'budget_s': 600 if tier == 'quick' else 3000,
                      'bounds': bounds(tier)})
    parts.append({'name': 'typed', 'kind': 'E2',
                  'run': (lambda: run_typed(tier)), 'budget_s': 600,
                  'bounds': {'scripts': 'C16 generator, widths <= 9'}})
    parts.append({'name': 'inline_history', 'kind': 'E2',
                  'run': (lambda: run_inline_history(tier)), 'budget_s': 600,
                  'bounds': {'history': 'one change of a body numeral between '
                             'two collect_information calls'}})
    for fam in SYMFAMS:
        parts.append({'name': fam, 'fn': make_symidx(fam),
                      'setup': _sym_setup, 'reset': _sym_reset,
                      'budget_s': 300 if tier == 'quick' else 1200,
                      'bounds': {'numerals': f'width 1..{SYMMAX}, extension '
                                 f'amounts and indices 0..{SYMMAX}, all '
                                 'symbolic; bit position symbolic'}})
    return parts


def extra_coverage(results):
    progs = sum((r.get('queries') or {}).get('instances', 0) for r in results)
    dec = sum((r.get('queries') or {}).get('proposals_decided', 0)
              for r in results)
    return {'programs': max(progs, 1), 'disagreements_checked': dec,
            'mutator_errors_seen': sum(
                (r.get('queries') or {}).get('n_mutator_errors', 0)
                for r in results)}


def replay(part, cex):
    """Re-run the instance through the real code in a fresh interpreter and
    decide it again (z3, then cvc5 as second opinion)."""
    if part == 'inline_history':
        r = run_inline_history('quick')
        return r['exc']['msg'] if r['exc'] else None
    if part in SYMFAMS:
        # native run of the same check on the solver's numerals, then the
        # concrete instance is decided by z3 as in the enumerated families
        try:
            r = symidx_check(part, cex['a'], cex['b'], cex['c'], cex['d'],
                             cex['p'])
        except Exception as e:
            return f'{type(e).__name__}: {e}'
        return None if r in (None, 'skip') else r
    if part == 'fpshort':
        for long_, short, v in fp_check():
            if long_ == cex['orig'] and v == 'sorterror':
                return f'FPShortSort: {long_} -> {short} is a different sort'
        return None
    if part == 'typed':
        r = run_typed('thorough', (cex['family'], list(cex['nums'])))
        return r['exc']['msg'] if r['exc'] else None
    if part == 'mergebw':
        decls, acc, props = mergebw_proposals(tuple(cex['instance']))
        for orig, repl in props:
            v, detail = decide(decls, orig, repl)
            if v in ('sat', 'sorterror'):
                return (f'BVMergeReducedBW: {orig} -> {repl}: {v} {detail}')
        return None
    inst = tuple(cex['instance'])
    acc, props, err = proposals(part, inst)
    for orig, repl in props:
        if orig == repl:
            continue
        v, detail = decide(inst[0], orig, repl)
        if v == 'sorterror':
            return (f'{FAMILIES[part][1]}: {orig} -> {repl} does not have the '
                    f'same sort ({detail})')
        if v == 'sat':
            v2 = decide_cvc5(inst[0], orig, repl)
            if v2 == 'unsat':
                return None     # solvers disagree: not reported
            return (f'{FAMILIES[part][1]}: {orig} -> {repl} differ under '
                    f'{detail} (z3 sat, cvc5 {v2})')
    return None
