"""C08 - the reader tokenises SMT-LIB text as the standard prescribes.

E1: differential symbolic execution of the real ``nodeio.parse_smtlib``
against ``vlib.ref.refreader.read`` on a fully symbolic input text (every
code point), partitioned by length and by the lexical class of the first
characters.
"""
from vlib.engine import assume, Violation
from vlib.ref import refreader as R

ID = 'C08'
LEVEL = 'model_checking'
FUNCTIONS = ['ddsmt.nodeio:parse_smtlib', 'ddsmt.nodes:Node.__init__']
ASSUMPTIONS = [
    'hash shim mode S: ddsmt.nodes.hash returns a constant for leaves and a '
    'structural polynomial for tuples (parse_smtlib uses hashes only to fill '
    'Node.hash)',
    'texts in which a simple token is directly followed by \'"\' or \'|\' '
    'without separator are outside the claim (lexemes separated by white '
    'space / parentheses / comments)',
    'texts with unbalanced parentheses or unterminated literals are outside '
    'C08 (C04 covers "does not crash" for them)',
    'characters outside the SMT-LIB alphabet are treated as symbol '
    'characters by both readers',
    'a comment ends at LF (a lone CR inside a comment stays part of it)',
]
OUTSIDE = ['texts longer than the length bound']

CLASSES = ['(', ')', '"', '|', ';', ' ', 'TN', '\r', 'o']


def in_class(ch, cls):
    if cls == 'TN':
        return ch == '\t' or ch == '\n'
    if cls == 'o':
        return not (ch == '(' or ch == ')' or ch == '"' or ch == '|'
                    or ch == ';' or ch == ' ' or ch == '\t' or ch == '\n'
                    or ch == '\r')
    return ch == cls


def to_list(node):
    if node.is_leaf():
        return node.data
    return [to_list(c) for c in node.data]


def check_text(text):
    """Shared by harness and replay: returns a description or None."""
    from ddsmt import nodeio
    ref = R.read(text)
    if isinstance(ref, str):
        return 'skip'
    got = [to_list(n) for n in nodeio.parse_smtlib(text)]
    if got != ref:
        return 'parse differs'
    return None


def make(L, pins):
    def h(text: str):
        assume(len(text) == L)
        for i, c in enumerate(pins):
            assume(in_class(text[i], c))
        r = check_text(text)
        assume(r != 'skip')
        if r is not None:
            raise Violation(r)
    return h


def bounds(tier):
    return {'max_len': 4 if tier == 'quick' else 6}


def _setup():
    from vlib import shims
    shims.install_hash('S')


def _empty_partition(pins, L=None):
    """True if every text of length L with this class prefix is
    unbalanced/adjacent (outside the quantifier)."""
    depth = 0
    prev = None
    need = 0
    for c in pins:
        if c in ('"', '|', ';'):
            if prev == 'o' and c != ';':
                return True
            # an open literal needs its closing quote, a comment inside an
            # expression its line end, before the parentheses can be closed
            need = 1 if (c != ';' or depth > 0) else 0
            break
        if c == '(':
            depth += 1
        elif c == ')':
            depth -= 1
            if depth < 0:
                return True
        prev = c
    if L is not None and len(pins) + need + depth > L:
        return True
    return False


def partitions(tier):
    N = bounds(tier)['max_len']
    parts = []
    for L in range(0, N + 1):
        if L <= 2:
            pinsets = [()]
        elif L == 3:
            pinsets = [(a,) for a in CLASSES]
        elif L <= 5:
            pinsets = [(a, b) for a in CLASSES for b in CLASSES]
        else:
            pinsets = [(a, b, c) for a in CLASSES for b in CLASSES
                       for c in CLASSES]
        for pins in pinsets:
            if _empty_partition(pins, L):
                continue  # every such text is outside the quantifier
            nm = f'len{L}' + ''.join('_' + {'(': 'lp', ')': 'rp', '"': 'dq',
                                            '|': 'bar', ';': 'sc', ' ': 'sp',
                                            'TN': 'tn', '\r': 'cr',
                                            'o': 'o'}[c] for c in pins)
            parts.append({
                'name': nm, 'fn': make(L, pins), 'setup': _setup,
                'budget_s': 150 if tier == 'quick' else 800,
                'per_path_timeout': 30,
                'bounds': {'len': L, 'first_classes': list(pins)},
            })
    return parts


def replay(part, cex):
    text = cex['text']
    try:
        r = check_text(text)
    except Exception as e:
        return f'parse_smtlib({text!r}) raised {type(e).__name__}: {e}'
    if r == 'skip' or r is None:
        return None
    from ddsmt import nodeio
    got = [to_list(n) for n in nodeio.parse_smtlib(text)]
    return (f'parse_smtlib({text!r}) = {got!r}, reference reader: '
            f'{R.read(text)!r}')
