"""C08 - the reader tokenises SMT-LIB text as the standard prescribes.

E1: differential symbolic execution of the real ``nodeio.parse_smtlib``
against ``vlib.ref.refreader.read`` on a fully symbolic input text (every
code point), partitioned by length and by the lexical class of the first
characters.
"""
from vlib.engine import assume, Violation
from vlib.ref import refreader as R

ID = 'C08'
LEVEL = 'model_checking'
FUNCTIONS = ['ddsmt.nodeio:parse_smtlib', 'ddsmt.nodes:Node.__init__']
LEXDOC = ('lexeme-level partitions: sequences of lexemes of every kind '
          '(symbol with hyphen, string literal incl. doubled quote, quoted '
          'symbol containing ; " ( and a line break, parentheses, decimal, '
          'keyword, #b, #x) with a symbolic character inside, separated by '
          'every kind of white space (none, space, tab, LF, CRLF, comment '
          'with symbolic content)')
ASSUMPTIONS = [
    'hash shim mode S: ddsmt.nodes.hash returns a constant for leaves and a '
    'structural polynomial for tuples (parse_smtlib uses hashes only to fill '
    'Node.hash)',
    'texts in which a simple token is directly followed by \'"\' or \'|\' '
    'without separator are outside the claim (lexemes separated by white '
    'space / parentheses / comments)',
    'texts with unbalanced parentheses or unterminated literals are outside '
    'C08 (C04 covers "does not crash" for them)',
    'characters outside the SMT-LIB alphabet are treated as symbol '
    'characters by both readers',
    'a comment ends at LF (a lone CR inside a comment stays part of it)',
]
OUTSIDE = ['texts longer than the length bound']

CLASSES = ['(', ')', '"', '|', ';', ' ', 'TN', '\r', 'o']


def in_class(ch, cls):
    if cls == 'TN':
        return ch == '\t' or ch == '\n'
    if cls == 'o':
        return not (ch == '(' or ch == ')' or ch == '"' or ch == '|'
                    or ch == ';' or ch == ' ' or ch == '\t' or ch == '\n'
                    or ch == '\r')
    return ch == cls


def to_list(node):
    if node.is_leaf():
        return node.data
    return [to_list(c) for c in node.data]


def check_text(text):
    """Shared by harness and replay: returns a description or None."""
    from ddsmt import nodeio
    ref = R.read(text)
    if isinstance(ref, str):
        return 'skip'
    got = [to_list(n) for n in nodeio.parse_smtlib(text)]
    if got != ref:
        return 'parse differs'
    return None


def check_and_describe(text):
    from ddsmt import nodeio
    ref = R.read(text)
    if isinstance(ref, str):
        return None
    try:
        got = [to_list(n) for n in nodeio.parse_smtlib(text)]
    except Exception as e:
        return f'parse_smtlib({text!r}) raised {type(e).__name__}: {e}'
    if got != ref:
        return f'parse_smtlib({text!r}) = {got!r}, reference reader: {ref!r}'
    return None


def make(L, pins):
    def h(text: str):
        assume(len(text) == L)
        for i, c in enumerate(pins):
            assume(in_class(text[i], c))
        r = check_text(text)
        assume(r != 'skip')
        if r is not None:
            raise Violation(r)
    return h


# ------------------------------------------------------ lexeme level
LEX = ['sym', 'str', 'quoted', 'lp', 'rp', 'num', 'kw', 'bin', 'hex']
SEPS = ['', ' ', '\t', '\n', '\r\n', 'comment']


def lexeme(kind, c):
    """Text of one lexeme of the given kind around the symbolic character c;
    None if c is not allowed there."""
    special = (c == ' ' or c == '\t' or c == '\n' or c == '\r' or c == '('
               or c == ')' or c == '"' or c == '|' or c == ';')
    if kind == 'sym':
        return None if special else 'a' + c + '-b'
    if kind == 'str':
        return '"x' + ('""' if c == '"' else c) + '"'
    if kind == 'quoted':
        return None if c == '|' else '|q' + c + ';"('
    if kind == 'lp':
        return '('
    if kind == 'rp':
        return ')'
    if kind == 'num':
        return None if not ('0' <= c <= '9') else '4' + c + '.5'
    if kind == 'kw':
        return None if special else ':k' + c
    if kind == 'bin':
        return None if not (c == '0' or c == '1') else '#b1' + c
    if kind == 'hex':
        return None if special else '#x' + c + 'F'
    return None


def separator(kind, d):
    if kind == 'comment':
        return None if d == '\n' else ';' + d + ')"\n'
    return kind


def check_lexemes(kinds, chars, seps, dchars):
    from ddsmt import nodeio
    pieces = []
    for i, k in enumerate(kinds):
        lx = lexeme(k, chars[i])
        if lx is None:
            return 'skip'
        if k == 'quoted':
            lx = lx + '|'
        pieces.append(lx)
        sp = separator(SEPS[seps[i]], dchars[i])
        if sp is None:
            return 'skip'
        pieces.append(sp)
    seq = R.explode(pieces)
    ref = R.read(seq)
    if isinstance(ref, str):
        return 'skip'
    got = [to_list(n) for n in nodeio.parse_smtlib(seq)]
    if got != ref:
        return 'parse differs'
    return None


def make_lex(kinds):
    n = len(kinds)

    def h(c0: str, c1: str, c2: str, c3: str, s0: int, s1: int, s2: int,
          s3: int, d0: str, d1: str, d2: str, d3: str):
        chars = [c0, c1, c2, c3]
        seps = [s0, s1, s2, s3]
        dch = [d0, d1, d2, d3]
        for i in range(4):
            if i < n:
                assume(len(chars[i]) == 1)
                assume(0 <= seps[i] < len(SEPS))
                if kinds[i] in ('lp', 'rp'):
                    assume(chars[i] == 'x')
            else:
                assume(len(chars[i]) == 0 and seps[i] == 0)
            assume(len(dch[i]) == (1 if i < n else 0))
        from crosshair.core import realize
        seps = [realize(x) for x in seps]
        for i in range(n):
            if SEPS[seps[i]] != 'comment':
                assume(dch[i] == 'x')
        r = check_lexemes(kinds, chars[:n], seps[:n], dch[:n])
        assume(r != 'skip')
        if r is not None:
            raise Violation(r)
    return h


GRID_LEX = ['a-b', 'x', '"s ""q"" ;("', '""', '|q ;"(\n|', '||', '(', ')', '42',
            '4.5', ':kw', '#b10', '#xaF', '_', '!', ';c )"\n', '; \n']
GRID_SEP = ['', ' ', '\t', '\n', '\r', '\r\n', ' ;c\n', '\n\n  ']


def run_lexgrid(n):
    """Auxiliary (concrete): every sequence of n lexemes from GRID_LEX with
    every separator of GRID_SEP between them - multi-character lexemes and
    all white-space kinds, which texts of <= 6 symbolic characters cannot
    combine."""
    import itertools
    import time
    from ddsmt import nodeio
    t0 = time.time()
    cnt = ok = 0
    bad = None
    for lex in itertools.product(GRID_LEX, repeat=n):
        for seps in itertools.product(GRID_SEP, repeat=n):
            text = ''.join(l + sp for l, sp in zip(lex, seps))
            cnt += 1
            ref = R.read(text)
            if isinstance(ref, str):
                continue
            ok += 1
            try:
                got = [to_list(x) for x in nodeio.parse_smtlib(text)]
            except Exception as e:
                got = f'{type(e).__name__}: {e}'
            if got != ref and bad is None:
                bad = ({'text': text},
                       f'parse_smtlib({text!r}) = {got!r}, reference reader: '
                       f'{ref!r}')
    return {'status': 'VIOLATED' if bad else 'CONFIRMED',
            'cex': bad[0] if bad else None,
            'exc': {'type': 'Violation', 'msg': bad[1]} if bad else None,
            'paths': cnt, 'paths_ok': ok,
            'samples': [{'text': 'a-b "s ""q"" ;("\t(#b10 ;c\n)'}],
            'solver_checks': 0, 'solver_seconds': 0.0,
            'wall_s': round(time.time() - t0, 2),
            'note': 'concrete grid (auxiliary)'}


FILE_LINES = ['(a b)', '; c', '(x ; d', ')', '"s', 't"', '|q', 'r|', 'y ;e',
              '', '( )']
FILE_EOLS = ['\n', '\r\n', '\r']


def fileread_one(text):
    """What cli.ddsmt_main hands to the strategies for an input *file* with
    the given bytes (the file is read in text mode: CR and CRLF line ends
    arrive at the parser as LF)."""
    import logging
    import os
    import shutil
    import tempfile
    from ddsmt import (checker, cli, options, strategy_ddmin,
                       strategy_hierarchical, tmpfiles, progress)
    from harness import strat_common as SC
    work = tempfile.mkdtemp(prefix='verif-c08-')
    seen = []
    saved = []

    def patch(mod, name, val):
        saved.append((mod, name, getattr(mod, name)))
        setattr(mod, name, val)

    try:
        inp = os.path.join(work, 'in.smt2')
        with open(inp, 'wb') as f:
            f.write(text.encode('utf8'))
        cmd = os.path.join(work, 'solver')
        with open(cmd, 'w') as f:
            f.write('#!/bin/sh\n')
        os.chmod(cmd, 0o755)
        ns = SC._namespace('hybrid', 1, 'core', os.path.join(work, 'out.smt2'))
        ns.infile = inp
        ns.cmd = [cmd]
        ns.cmd_cc = None
        ns.parser_test = False

        def capture(exprs):
            seen.append([to_list(x) for x in exprs])
            return exprs, 0

        patch(strategy_ddmin, 'reduce', capture)
        patch(strategy_hierarchical, 'reduce', capture)
        patch(checker, 'do_golden_runs', lambda: None)
        patch(tmpfiles, 'copy_binaries', lambda: None)
        if not hasattr(logging, 'chat'):
            setattr(options, '__PARSED_ARGS', ns)
            cli.setup_logging()
        patch(cli, 'setup_logging', lambda: None)
        logging.getLogger().setLevel(logging.CRITICAL)
        cli.ddsmt_main()
    finally:
        for mod, name, val in reversed(saved):
            setattr(mod, name, val)
        shutil.rmtree(work, ignore_errors=True)
    return seen[0] if seen else None


def run_fileread(tier):
    """Auxiliary (concrete): files of three lines with LF, CRLF and bare CR
    line ends go through cli.ddsmt_main's own reading of the input file; the
    tree handed to the strategies is the reference reading of the text with
    its line ends normalised."""
    import itertools
    import time
    t0 = time.time()
    cnt = ok = 0
    bad = None
    nl = 3 if tier == 'quick' else 4
    for lines in itertools.product(FILE_LINES, repeat=nl):
        canon = ''.join(l + '\n' for l in lines)
        ref = R.read(canon)
        if isinstance(ref, str):
            continue
        for eols in itertools.product(FILE_EOLS, repeat=nl):
            if tier == 'quick' and len(set(eols)) > 1 and cnt % 3:
                cnt += 1
                continue
            cnt += 1
            text = ''.join(l + e for l, e in zip(lines, eols))
            ref = R.read(text.replace('\r\n', '\n').replace('\r', '\n'))
            if isinstance(ref, str):
                continue
            try:
                got = fileread_one(text)
            except Exception as e:
                got = f'{type(e).__name__}: {e}'
            ok += 1
            if got is None or isinstance(got, str) or \
                    R.norm_tree(got) != R.norm_tree(ref):
                if bad is None:
                    bad = ({'text': text},
                           f'input file {text!r}: ddsmt_main works on '
                           f'{got!r}, the file reads as {ref!r}')
        if bad:
            break
    return {'status': 'VIOLATED' if bad else 'CONFIRMED',
            'cex': bad[0] if bad else None,
            'exc': {'type': 'Violation', 'msg': bad[1]} if bad else None,
            'paths': cnt, 'paths_ok': ok,
            'samples': [{'text': '(a b)\r; c\r(x ; d\r)\r'}],
            'solver_checks': 0, 'solver_seconds': 0.0,
            'wall_s': round(time.time() - t0, 2),
            'note': 'concrete grid through the real file reading of '
                    'cli.ddsmt_main (auxiliary)'}


def _lex_balanced_possible(kinds):
    depth = 0
    for k in kinds:
        if k == 'lp':
            depth += 1
        elif k == 'rp':
            depth -= 1
            if depth < 0:
                return False
    return depth == 0


def bounds(tier):
    return {'max_len': 4 if tier == 'quick' else 6,
            'lexemes': 3}


def _setup():
    from vlib import shims
    shims.install_hash('S')


def _empty_partition(pins, L=None):
    """True if every text of length L with this class prefix is
    unbalanced/adjacent (outside the quantifier)."""
    depth = 0
    prev = None
    need = 0
    pins = list(pins)
    k = 0
    while k < len(pins):
        c = pins[k]
        k += 1
        if c in ('"', '|') and prev != 'o' and k + 1 < len(pins) \
                and pins[k] == c and pins[k + 1] != c:
            # an empty literal / quoted symbol that is certainly closed
            # (the next character is known and is not another quote)
            k += 1
            prev = 'lit'
            continue
        if c in ('"', '|', ';'):
            if prev == 'o' and c != ';':
                return True
            # an open literal needs its closing quote, a comment inside an
            # expression its line end, before the parentheses can be closed
            need = 1 if (c != ';' or depth > 0) else 0
            break
        if c == '(':
            depth += 1
        elif c == ')':
            depth -= 1
            if depth < 0:
                return True
        prev = c
    if L is not None and len(pins) + need + depth > L:
        return True
    return False


def partitions(tier):
    N = bounds(tier)['max_len']
    parts = []
    for L in range(0, N + 1):
        if L <= 2:
            pinsets = [()]
        elif L == 3:
            pinsets = [(a,) for a in CLASSES]
        elif L <= 5:
            pinsets = [(a, b) for a in CLASSES for b in CLASSES]
        else:
            pinsets = [(a, b, c) for a in CLASSES for b in CLASSES
                       for c in CLASSES]
        for pins in pinsets:
            if _empty_partition(pins, L):
                continue  # every such text is outside the quantifier
            nm = f'len{L}' + ''.join('_' + {'(': 'lp', ')': 'rp', '"': 'dq',
                                            '|': 'bar', ';': 'sc', ' ': 'sp',
                                            'TN': 'tn', '\r': 'cr',
                                            'o': 'o'}[c] for c in pins)
            parts.append({
                'name': nm, 'fn': make(L, pins), 'setup': _setup,
                'budget_s': 150 if tier == 'quick' else 800,
                'per_path_timeout': 30,
                'bounds': {'len': L, 'first_classes': list(pins)},
            })
    parts.append({'name': 'fileread', 'kind': 'native',
                  'run': (lambda: run_fileread(tier)), 'budget_s': 600,
                  'bounds': {'lines': 3 if tier == 'quick' else 4,
                             'line_ends': ['LF', 'CRLF', 'CR']}})
    parts.append({'name': 'lexgrid', 'kind': 'native',
                  'run': (lambda: run_lexgrid(bounds(tier)['lexemes'])),
                  'budget_s': 600,
                  'bounds': {'lexemes': bounds(tier)['lexemes'],
                             'note': 'concrete grid (auxiliary)'}})
    return parts


def replay(part, cex):
    if part == 'fileread':
        try:
            got = fileread_one(cex['text'])
        except Exception as e:
            return f'{type(e).__name__}: {e}'
        t = cex['text'].replace('\r\n', '\n').replace('\r', '\n')
        ref = R.read(t)
        if got is None or R.norm_tree(got) != R.norm_tree(ref):
            return (f'input file {cex["text"]!r}: ddsmt_main works on '
                    f'{got!r}, the file reads as {ref!r}')
        return None
    if part == 'lexgrid':
        try:
            return check_and_describe(cex['text'])
        except Exception as e:
            return f'{type(e).__name__}: {e}'
    if part.startswith('lex_'):
        kinds = part[4:].split('_')
        n = len(kinds)
        try:
            r = check_lexemes(kinds, [cex[f'c{i}'] for i in range(n)],
                              [cex[f's{i}'] for i in range(n)],
                              [cex[f'd{i}'] for i in range(n)])
        except Exception as e:
            return f'{type(e).__name__}: {e}'
        if r in (None, 'skip'):
            return None
        from ddsmt import nodeio
        pieces = []
        for i, k in enumerate(kinds):
            lx = lexeme(k, cex[f'c{i}'])
            pieces.append(lx + ('|' if k == 'quoted' else ''))
            pieces.append(separator(SEPS[cex[f's{i}']], cex[f'd{i}']))
        text = ''.join(pieces)
        got = [to_list(n) for n in nodeio.parse_smtlib(text)]
        return (f'parse_smtlib({text!r}) = {got!r}, reference reader: '
                f'{R.read(text)!r}')
    text = cex['text']
    try:
        r = check_text(text)
    except Exception as e:
        return f'parse_smtlib({text!r}) raised {type(e).__name__}: {e}'
    if r == 'skip' or r is None:
        return None
    from ddsmt import nodeio
    got = [to_list(n) for n in nodeio.parse_smtlib(text)]
    return (f'parse_smtlib({text!r}) = {got!r}, reference reader: '
            f'{R.read(text)!r}')
