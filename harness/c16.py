"""C16 - inferred sorts and bit-widths are never wrong.

E1 over the real ``smtlib.collect_information`` / ``get_sort`` /
``get_bv_width`` / ``get_default_constants`` on generated well-sorted terms
whose *numerals are symbolic integers* (widths, extension amounts, extract
indices, repeat counts, floating-point exponent/significand sizes): one path
covers every value of them.  The operator and the argument kinds (declared
variable, constant, application of a declared function = sort unknown to
ddSMT, nested application) are enumerated by the families.  Ground truth is
the generator's typing.  Default constants are type-checked with z3.
"""
from vlib.engine import assume, Violation

ID = 'C16'
LEVEL = 'model_checking'
FUNCTIONS = ['ddsmt.smtlib:collect_information', 'ddsmt.smtlib:get_sort',
             'ddsmt.smtlib:_get_sort_aux', 'ddsmt.smtlib:get_bv_width',
             'ddsmt.smtlib:get_default_constants', 'ddsmt.smtlib:get_indices',
             'ddsmt.smtlib:is_bv_const', 'ddsmt.smtlib:is_bv_sort']
ASSUMPTIONS = [
    'every symbol is bound exactly once (precondition of the property)',
    'hash shim mode T: concrete leaves keep their real str hash (smtlib '
    'tables are str-keyed dicts probed with Node objects); symbolic leaves '
    'are numerals in index/sort positions only and are never looked up',
    'ground truth is the typing of the instance generator (SMT-LIB 2.6 '
    'theory signatures)',
    'numerals range over 1..99 (digit count forks, value is symbolic)',
]
OUTSIDE = ['user-defined sorts (define-sort), parametric datatypes, match',
           'argument terms nested deeper than two applications']

MAXN = 99
BV_SAME = ['bvadd', 'bvand', 'bvashr', 'bvmul', 'bvnand', 'bvneg', 'bvnor',
           'bvnot', 'bvor', 'bvsdiv', 'bvshl', 'bvlshr', 'bvsmod', 'bvsrem',
           'bvsub', 'bvudiv', 'bvurem', 'bvxnor', 'bvxor']
BV_UNARY = ['bvneg', 'bvnot']
BV_PRED = ['bvult', 'bvule', 'bvugt', 'bvuge', 'bvslt', 'bvsle', 'bvsgt',
           'bvsge', '=', 'distinct']


def bvsort(w):
    return ('_', 'BitVec', w)


def _sorttxt(s):
    """Rendering of a sort given as nested tuple with ints."""
    if isinstance(s, tuple):
        return '(' + ' '.join(_sorttxt(x) for x in s) + ')'
    return str(s)


class Inst:
    """decls: list of command tuples; terms: list of (term tuple, sort)
    where sort is a nested tuple (ints may be symbolic) or None for Bool."""

    def __init__(self):
        self.decls = []
        self.checks = []
        self.closed = []      # terms without free bound symbols

    def var(self, name, sort):
        self.decls.append(('declare-const', name, sort))
        return name

    def fun(self, name, args, sort):
        self.decls.append(('declare-fun', name, tuple(args), sort))
        return name

    def expect(self, term, sort):
        self.checks.append((term, sort))


def _argkinds(inst, w, k):
    """An operand of sort BitVec w in one of four kinds."""
    if k == 0:
        return inst.var('x', bvsort(w))
    if k == 1:
        inst.var('x', bvsort(w))
        inst.fun('f', [bvsort(w)], bvsort(w))
        return ('f', 'x')               # sort unknown to ddSMT
    if k == 2:
        inst.var('x', bvsort(w))
        return ('bvnot', 'x')
    inst.var('x', bvsort(w))
    return ('bvadd', 'x', ('bvneg', 'x'))


# each family: f(inst, n1, n2, n3, sel) with symbolic ints n*, concrete sel

def fam_extend(inst, a, b, c, sel):
    op, kind = sel
    x = _argkinds(inst, a, kind)
    assume(0 <= b <= MAXN)
    inst.expect((('_', op, b), x), bvsort(a + b))
    inst.expect((('_', op, b), (('_', op, c), x)), bvsort(a + b + c))


def fam_extract(inst, a, b, c, sel):
    kind = sel
    x = _argkinds(inst, a, kind)
    assume(0 <= c <= b < a)
    inst.expect((('_', 'extract', b, c), x), bvsort(b - c + 1))


def fam_repeat(inst, a, b, c, sel):
    op, kind = sel
    x = _argkinds(inst, a, kind)
    assume(1 <= b <= 64)
    if op.startswith('repeat'):
        # the repeat count is concrete (symbolic * symbolic is non-linear)
        n = int(op[6:])
        inst.expect((('_', 'repeat', n), x), bvsort(a * n))
    else:
        inst.expect((('_', op, b), x), bvsort(a))


def fam_concat(inst, a, b, c, sel):
    k1, k2 = sel
    x = _argkinds(inst, a, k1)
    inst.var('y', bvsort(b))
    y = 'y'
    if k2 == 1:
        inst.fun('g', [bvsort(b)], bvsort(b))
        y = ('g', 'y')
    inst.expect(('concat', x, y), bvsort(a + b))
    inst.expect(('concat', y, x), bvsort(a + b))
    inst.var('z', bvsort(c))
    inst.expect(('concat', x, y, 'z'), bvsort(a + b + c))


def fam_bvop(inst, a, b, c, sel):
    op, kind = sel
    x = _argkinds(inst, a, kind)
    inst.var('y', bvsort(a))
    if op in BV_UNARY:
        inst.expect((op, x), bvsort(a))
    else:
        inst.expect((op, x, 'y'), bvsort(a))
        inst.expect((op, 'y', x), bvsort(a))


def fam_bvpred(inst, a, b, c, sel):
    op, kind = sel
    x = _argkinds(inst, a, kind)
    inst.var('y', bvsort(a))
    inst.expect((op, x, 'y'), 'Bool')
    inst.expect(('bvcomp', x, 'y'), bvsort(1))
    inst.var('p', 'Bool')
    inst.expect(('ite', 'p', x, 'y'), bvsort(a))
    inst.expect(('ite', (op, x, 'y'), 'y', x), bvsort(a))


def fam_bvconst(inst, a, b, c, sel):
    assume(0 <= b <= MAXN)
    inst.expect(('_', 'bv' + str(b), a), bvsort(a))
    if sel == 1:
        inst.var('x', bvsort(a))
        inst.expect(('bvadd', ('_', 'bv' + str(b), a), 'x'), bvsort(a))
        inst.expect(('concat', ('_', 'bv' + str(b), a), '#b01'),
                    bvsort(a + 2))
        inst.expect(('concat', '#xA0', 'x'), bvsort(a + 8))


def fam_fp(inst, a, b, c, sel):
    op, kind = sel
    assume(2 <= a <= 64 and 2 <= b <= 128)
    fps = ('_', 'FloatingPoint', a, b)
    inst.var('u', fps)
    inst.var('v', fps)
    inst.var('rm', 'RoundingMode')
    u = 'u'
    if kind == 1:
        inst.fun('h', [fps], fps)
        u = ('h', 'u')
    if op in ('fp.abs', 'fp.neg'):
        inst.expect((op, u), fps)
    elif op in ('fp.max', 'fp.min', 'fp.rem'):
        inst.expect((op, u, 'v'), fps)
        inst.expect((op, 'v', u), fps)
    elif op in ('fp.add', 'fp.sub', 'fp.mul', 'fp.div'):
        inst.expect((op, 'rm', u, 'v'), fps)
        inst.expect((op, 'rm', 'v', u), fps)
    elif op in ('fp.sqrt', 'fp.roundToIntegral'):
        inst.expect((op, 'rm', u), fps)
    elif op == 'fp.fma':
        inst.expect((op, 'rm', u, 'v', 'v'), fps)
    elif op in ('fp.leq', 'fp.lt', 'fp.geq', 'fp.gt', 'fp.eq'):
        inst.expect((op, u, 'v'), 'Bool')
    elif op in ('fp.isNaN', 'fp.isZero', 'fp.isNormal', 'fp.isInfinite',
                'fp.isSubnormal', 'fp.isNegative', 'fp.isPositive'):
        inst.expect((op, u), 'Bool')
    elif op == 'fp.to_real':
        inst.expect((op, u), 'Real')
    elif op in ('fp.to_ubv', 'fp.to_sbv'):
        assume(1 <= c <= MAXN)
        inst.expect((('_', op, c), 'rm', u), bvsort(c))
    elif op == 'to_fp':
        inst.var('r', 'Real')
        inst.expect((('_', 'to_fp', a, b), 'rm', 'r'), fps)
        inst.expect((('_', 'to_fp', a, b), 'rm', u), fps)
        inst.var('bv', bvsort(c))
        inst.expect((('_', 'to_fp_unsigned', a, b), 'rm', 'bv'), fps)
    elif op == 'fp':
        inst.var('s', bvsort(1))
        inst.var('e', bvsort(a))
        inst.var('m', bvsort(b - 1))
        inst.expect(('fp', 's', 'e', 'm'), fps)
        inst.fun('ge', [bvsort(a)], bvsort(a))
        inst.expect(('fp', 's', ('ge', 'e'), 'm'), fps)
        inst.fun('gm', [bvsort(b - 1)], bvsort(b - 1))
        inst.expect(('fp', 's', 'e', ('gm', 'm')), fps)


def fam_arith(inst, a, b, c, sel):
    op, st = sel
    inst.var('i', 'Int')
    inst.var('j', 'Int')
    inst.var('r', 'Real')
    inst.var('q', 'Real')
    inst.fun('fi', ['Int'], 'Int')
    inst.fun('fr', ['Real'], 'Real')
    assume(0 <= a <= MAXN)
    ints = ['i', a, ('fi', 'j'), ('+', 'i', 'j')]
    reals = ['r', ('fr', 'q'), ('*', 'r', 'q')]
    if op in ('+', '-', '*'):
        for x in (ints if st == 'Int' else reals):
            for y in (ints if st == 'Int' else reals):
                inst.expect((op, x, y), st)
    elif op in ('div', 'mod'):
        for x in ints:
            inst.expect((op, x, 'j'), 'Int')
    elif op == 'abs':
        for x in ints:
            inst.expect(('abs', x), 'Int')
    elif op == '/':
        for x in reals:
            inst.expect(('/', x, 'q'), 'Real')
    elif op == 'conv':
        for x in ints:
            inst.expect(('to_real', x), 'Real')
        for x in reals:
            inst.expect(('to_int', x), 'Int')
            inst.expect(('is_int', x), 'Bool')
    elif op in ('<', '<=', '>', '>=', '=', 'distinct'):
        for x in (ints if st == 'Int' else reals):
            inst.expect((op, x, 'j' if st == 'Int' else 'q'), 'Bool')
    elif op == 'ite':
        inst.var('p', 'Bool')
        for x in (ints if st == 'Int' else reals):
            inst.expect(('ite', 'p', x, 'j' if st == 'Int' else 'q'), st)
            inst.expect(('ite', 'p', 'j' if st == 'Int' else 'q', x), st)


def fam_core(inst, a, b, c, sel):
    inst.var('p', 'Bool')
    inst.var('q', 'Bool')
    inst.fun('P', ['Int'], 'Bool')
    inst.var('i', 'Int')
    ps = ['p', 'true', ('P', 'i'), ('not', 'q')]
    for op in ('and', 'or', 'xor', '=>', '=', 'distinct'):
        for x in ps:
            inst.expect((op, x, 'q'), 'Bool')
    for x in ps:
        inst.expect(('not', x), 'Bool')
        inst.expect(('ite', x, 'p', 'q'), 'Bool')
        inst.expect(('ite', 'p', x, 'q'), 'Bool')


def fam_strings(inst, a, b, c, sel):
    inst.var('s', 'String')
    inst.var('t', 'String')
    inst.var('i', 'Int')
    inst.fun('fs', ['String'], 'String')
    for x in ('s', ('fs', 't'), '"ab"'):
        inst.expect(('str.len', x), 'Int')
        inst.expect(('str.indexof', x, 't', 'i'), 'Int')
        inst.expect(('str.to_code', x), 'Int')
        inst.expect(('str.to_int', x), 'Int')
        for op in ('str.<', 'str.<=', 'str.prefixof', 'str.suffixof',
                   'str.contains'):
            inst.expect((op, x, 't'), 'Bool')
        inst.expect(('str.is_digit', x), 'Bool')
        inst.expect(('str.++', x, 't'), 'String')
        inst.expect(('str.at', x, 'i'), 'String')
        inst.expect(('str.substr', x, 'i', 'i'), 'String')
        inst.expect(('str.replace', x, 't', 't'), 'String')
        inst.expect(('str.from_int', 'i'), 'String')
        inst.expect(('ite', ('str.contains', x, 't'), x, 't'), 'String')


def fam_arrays(inst, a, b, c, sel):
    arr = ('Array', bvsort(a), bvsort(b))
    inst.var('m', arr)
    inst.var('x', bvsort(a))
    inst.var('y', bvsort(b))
    inst.fun('fa', [arr], arr)
    for m in ('m', ('fa', 'm'), ('store', 'm', 'x', 'y')):
        inst.expect(('select', m, 'x'), bvsort(b))
        inst.expect(('store', m, 'x', 'y'), arr)
        inst.expect(('store', ('store', m, 'x', 'y'), 'x', 'y'), arr)
    arr2 = ('Array', 'Int', ('Array', 'Int', 'Real'))
    inst.var('mm', arr2)
    inst.var('i', 'Int')
    inst.expect(('select', 'mm', 'i'), ('Array', 'Int', 'Real'))
    inst.expect(('select', ('select', 'mm', 'i'), 'i'), 'Real')


def fam_dt(inst, a, b, c, sel):
    inst.decls.append(('declare-datatype', 'A',
                       (('C', ('s', 'Int'), ('t', bvsort(a))), ('D',),
                        ('E', ('u', 'A')))))
    inst.decls.append(('declare-datatypes', (('L', 0), ('M', 0)),
                       ((('nil',), ('cons', ('hd', 'Int'), ('tl', 'L'))),
                        (('mk', ('fst', 'L'), ('snd', bvsort(b))),))))
    inst.var('i', 'Int')
    inst.var('x', bvsort(a))
    inst.var('y', bvsort(b))
    inst.var('va', 'A')
    inst.var('l', 'L')
    inst.expect(('C', 'i', 'x'), 'A')
    inst.expect('D', 'A')
    inst.expect(('E', 'va'), 'A')
    inst.expect(('E', ('C', 'i', 'x')), 'A')
    inst.expect(('s', 'va'), 'Int')
    inst.expect(('t', 'va'), bvsort(a))
    inst.expect(('u', 'va'), 'A')
    inst.expect('nil', 'L')
    inst.expect(('cons', 'i', 'l'), 'L')
    inst.expect(('mk', 'l', 'y'), 'M')
    inst.expect(('hd', 'l'), 'Int')
    inst.expect(('snd', ('mk', 'l', 'y')), bvsort(b))
    inst.expect(('tl', ('cons', 'i', 'nil')), 'L')


def fam_binders(inst, a, b, c, sel):
    inst.var('x', bvsort(a))
    inst.var('i', 'Int')
    inst.fun('Q', [bvsort(b), 'Int'], 'Bool')
    ext = (('_', 'zero_extend', c), 'x')
    body = ('bvadd', 'u', 'u')
    inst.expect(('let', (('u', ext),), body), bvsort(a + c), inner=[
        ('u', bvsort(a + c)), (body, bvsort(a + c))])
    inst.expect(('let', (('v', ('+', 'i', 1)), ('w', 'x')), ('bvnot', 'w')),
                bvsort(a), inner=[('v', 'Int'), ('w', bvsort(a))])
    inst.fun('fu', [bvsort(a)], bvsort(b))
    inst.expect(('let', (('n1', ('fu', 'x')),), ('bvnot', 'n1')), bvsort(b),
                inner=[('n1', bvsort(b)), (('bvnot', 'n1'), bvsort(b))])
    inst.var('pb', 'Bool')
    inst.expect(('let', (('n2', ('fu', 'x')), ('n3', 'i')),
                 ('ite', 'pb', 'n2', ('fu', 'x'))), bvsort(b),
                inner=[('n2', bvsort(b)), ('n3', 'Int'),
                       (('ite', 'pb', 'n2', 'n2'), bvsort(b))])
    inst.expect(('forall', (('z', bvsort(b)), ('k', 'Int')), ('Q', 'z', 'k')),
                'Bool', inner=[('z', bvsort(b)), ('k', 'Int')])
    inst.expect(('exists', (('e', bvsort(b)),),
                 ('=', ('bvnot', 'e'), 'e')), 'Bool',
                inner=[('e', bvsort(b)), (('bvnot', 'e'), bvsort(b))])


def fam_deffun(inst, a, b, c, sel):
    """Defined functions whose parameter sorts differ from the result sort:
    the parameters are typeable inside the body only."""
    inst.var('x', bvsort(a))
    inst.var('i', 'Int')
    inst.decls.append(('define-fun', 'pos', (('pa', 'Int'), ('pb', 'Real')),
                       'Bool', ('and', ('>', 'pa', 0), ('>', 'pb', '0.5'))))
    inst.decls.append(('define-fun', 'wid', (('pw', bvsort(a)),
                                             ('pv', bvsort(b))),
                       bvsort(a + b), ('concat', 'pw', 'pv')))
    inst.decls.append(('define-fun', 'sel', (('pc', 'Bool'),
                                             ('pd', bvsort(a))),
                       bvsort(a), ('ite', 'pc', 'pd', ('bvnot', 'pd'))))
    inst.checks.append(('pa', 'Int'))
    inst.checks.append(('pb', 'Real'))
    inst.checks.append(('pw', bvsort(a)))
    inst.checks.append(('pv', bvsort(b)))
    inst.checks.append((('concat', 'pw', 'pv'), bvsort(a + b)))
    inst.checks.append(('pc', 'Bool'))
    inst.checks.append(('pd', bvsort(a)))
    inst.checks.append((('bvnot', 'pd'), bvsort(a)))
    inst.expect(('pos', 'i', '1.5'), 'Bool')
    inst.expect(('sel', ('pos', 'i', '2.5'), 'x'), bvsort(a))


# Inst.expect with inner terms (bound symbols are only typeable inside)
def _expect(self, term, sort, inner=None):
    self.checks.append((term, sort))
    self.closed.append((term, sort))
    for t, s in (inner or []):
        self.checks.append((t, s))


Inst.expect = _expect

FAMS = {}
for _op in ('zero_extend', 'sign_extend'):
    for _k in range(4):
        FAMS[f'extend_{_op}_{_k}'] = (fam_extend, (_op, _k))
for _k in range(4):
    FAMS[f'extract_{_k}'] = (fam_extract, _k)
for _op in ('repeat1', 'repeat2', 'repeat3', 'repeat7', 'rotate_left',
            'rotate_right'):
    for _k in (0, 1):
        FAMS[f'repeat_{_op}_{_k}'] = (fam_repeat, (_op, _k))
for _k1 in range(4):
    for _k2 in (0, 1):
        FAMS[f'concat_{_k1}_{_k2}'] = (fam_concat, (_k1, _k2))
for _op in BV_SAME:
    for _k in (0, 1, 3):
        FAMS[f'bvop_{_op}_{_k}'] = (fam_bvop, (_op, _k))
for _op in BV_PRED:
    for _k in (0, 1):
        FAMS[f'bvpred_{_op}_{_k}'] = (fam_bvpred, (_op, _k))
FAMS['bvconst_0'] = (fam_bvconst, 0)
FAMS['bvconst_1'] = (fam_bvconst, 1)
for _op in ('fp.abs', 'fp.neg', 'fp.max', 'fp.min', 'fp.rem', 'fp.add',
            'fp.sub', 'fp.mul', 'fp.div', 'fp.sqrt', 'fp.roundToIntegral',
            'fp.fma', 'fp.leq', 'fp.lt', 'fp.geq', 'fp.gt', 'fp.eq',
            'fp.isNaN', 'fp.isZero', 'fp.isNormal', 'fp.isInfinite',
            'fp.isSubnormal', 'fp.isNegative', 'fp.isPositive', 'fp.to_real',
            'fp.to_ubv', 'fp.to_sbv', 'to_fp', 'fp'):
    for _k in (0, 1):
        FAMS[f'fp_{_op}_{_k}'] = (fam_fp, (_op, _k))
for _op in ('+', '-', '*', '<', '<=', '>', '>=', '=', 'distinct', 'ite'):
    for _st in ('Int', 'Real'):
        FAMS[f'arith_{_op}_{_st}'] = (fam_arith, (_op, _st))
for _op in ('div', 'mod', 'abs', '/', 'conv'):
    FAMS[f'arith_{_op}'] = (fam_arith, (_op, 'Int'))
FAMS['core'] = (fam_core, None)
FAMS['strings'] = (fam_strings, None)
FAMS['arrays'] = (fam_arrays, None)
FAMS['dt'] = (fam_dt, None)
FAMS['binders'] = (fam_binders, None)
FAMS['deffun'] = (fam_deffun, None)


def _mk(Node, t):
    if isinstance(t, tuple):
        return Node(*[_mk(Node, c) for c in t])
    return Node(t)


def _subterms(node, out):
    out.append(node)
    if not node.is_leaf():
        for c in node.data:
            _subterms(c, out)


def check_instance(fname, a, b, c):
    """Shared by harness (a, b, c symbolic) and replay (concrete)."""
    from ddsmt import smtlib
    from ddsmt.nodes import Node
    fam, sel = FAMS[fname]
    inst = Inst()
    fam(inst, a, b, c, sel)
    exprs = [_mk(Node, d) for d in inst.decls]
    terms = [(_mk(Node, t), s) for t, s in inst.checks]
    exprs.extend(Node('assert', t) if s == 'Bool' else
                 Node('assert', Node('=', t, t)) for t, s in terms
                 if not (isinstance(t.data, str)))
    smtlib.collect_information(exprs)
    for t, s in terms:
        got = smtlib.get_sort(t)
        if got is not None and not _same_sort(got, s):
            return (f'get_sort({t.__str__()}) = {got.__str__()}, actual sort '
                    f'{_sorttxt(s)}')
        w = smtlib.get_bv_width(t)
        if isinstance(s, tuple) and s[1] == 'BitVec':
            if w != -1 and w != s[2]:
                return (f'get_bv_width({t.__str__()}) = {w}, actual width '
                        f'{s[2]}')
        elif w != -1:
            return (f'get_bv_width({t.__str__()}) = {w} for a term of sort '
                    f'{_sorttxt(s)}')
    return None


def _same_sort(got, s):
    """Sort node == expected sort; numerals are compared as numbers (keeps
    int -> str -> int round trips out of the solver's string theory)."""
    if isinstance(s, tuple):
        if got.is_leaf() or len(got.data) != len(s):
            return False
        for g, e in zip(got.data, s):
            if not _same_sort(g, e):
                return False
        return True
    if not got.is_leaf():
        return False
    if isinstance(s, str):
        return got.data == s
    return int(got.data) == s


def make(fname):
    def h(a: int, b: int, c: int):
        assume(1 <= a <= MAXN and 1 <= b <= MAXN and 0 <= c <= MAXN)
        r = check_instance(fname, a, b, c)
        if r:
            raise Violation(r)
    return h


# ------------------------------------------------- default constants (z3)

def run_defaults():
    """get_default_constants(s): every constant has sort s (z3 type check of
    (= c x) with x : s)."""
    import time
    import z3
    from ddsmt import smtlib, nodeio
    t0 = time.time()
    sorts = ['Bool', 'Int', 'Real', 'Float16', 'Float32', 'Float64',
             'Float128', '(_ FloatingPoint 3 5)', '(_ FloatingPoint 11 53)',
             '(_ FloatingPoint 2 2)']
    sorts += [f'(_ BitVec {w})' for w in (1, 2, 3, 8, 64, 1000)]
    n = 0
    bad = None
    samples = []
    for st in sorts:
        exprs = list(nodeio.parse_smtlib(f'(declare-const x {st})'))
        smtlib.collect_information(exprs)
        for cst in smtlib.get_default_constants(exprs[0][2]):
            n += 1
            q = f'(declare-const x {st})(assert (= x {cst}))'
            s = z3.Solver()
            try:
                s.from_string(q)
                ok = True
            except z3.Z3Exception as e:
                ok = False
                err = str(e)[:200]
            if len(samples) < 4:
                samples.append({'sort': st, 'constant': str(cst), 'ok': ok})
            if not ok and bad is None:
                bad = {'sort': st, 'constant': str(cst), 'error': err}
    return {'status': 'VIOLATED' if bad else 'CONFIRMED', 'cex': bad,
            'exc': {'type': 'Violation', 'msg': str(bad)} if bad else None,
            'paths': n, 'paths_ok': n, 'samples': samples,
            'solver_checks': n, 'solver_seconds': 0.0,
            'wall_s': round(time.time() - t0, 2)}


def run_generator_typing():
    """Validation of the ground truth: z3 must accept every generated term at
    the sort the generator claims (concrete numerals 3, 5, 2)."""
    import time
    import z3
    t0 = time.time()
    n = 0
    bad = []
    samples = []
    for fname, (fam, sel) in FAMS.items():
        inst = Inst()
        for nums in ((3, 5, 2), (7, 4, 2), (9, 3, 1)):
            try:
                inst = Inst()
                fam(inst, *nums, sel)
                break
            except Exception:
                inst = None
        if inst is None:
            bad.append({'family': fname, 'z3': 'no concrete instance'})
            continue
        decls = ''.join(_sorttxt(d) for d in inst.decls)
        for k, (t, s) in enumerate(inst.closed):
            n += 1
            q = (f'{decls}(declare-const r__{k} {_sorttxt(s)})'
                 f'(assert (= r__{k} {_sorttxt(t)}))')
            sol = z3.Solver()
            try:
                sol.from_string(q)
            except z3.Z3Exception as e:
                bad.append({'family': fname, 'term': _sorttxt(t),
                            'sort': _sorttxt(s), 'z3': str(e)[:200]})
            if len(samples) < 3 and k == 0:
                samples.append({'family': fname, 'term': _sorttxt(t),
                                'sort': _sorttxt(s)})
    return {'status': 'UNKNOWN' if bad else 'CONFIRMED', 'cex': None,
            'paths': n, 'paths_ok': n - len(bad), 'samples': samples,
            'solver_checks': n, 'solver_seconds': 0.0,
            'engine_error': f'generator produces ill-typed terms: {bad[:3]}'
            if bad else None, 'wall_s': round(time.time() - t0, 2)}


# ------------------------------- consequence: same-sort replacements (z3)

CONSEQ_MUTS = [('mutators_core', 'Constants'),
               ('mutators_core', 'ReplaceByChild'),
               ('mutators_core', 'ReplaceByVariable'),
               ('mutators_smtlib', 'IntroduceFreshVariable')]
CONSEQ_NUMS = ((3, 5, 2), (7, 4, 2), (9, 3, 1), (1, 1, 0))


def _term_positions(t, scope, out):
    """(node, frozenset of binder-bound symbols in scope) for every term
    position below ``t`` (heads, indices, sorts and binder lists are not
    term positions)."""
    out.append((t, scope))
    if t.is_leaf() or len(t) == 0:
        return
    h = t[0]
    if h.is_leaf():
        hd = h.data
        if hd in ('_', 'as'):
            return
        if hd in ('forall', 'exists') and len(t) > 2 and not t[1].is_leaf():
            inner = scope | {v[0].data for v in t[1]
                             if len(v) == 2 and v[0].is_leaf()}
            for c in t[2:]:
                _term_positions(c, inner, out)
            return
        if hd == 'let' and len(t) > 2 and not t[1].is_leaf():
            for b in t[1]:
                if not b.is_leaf() and len(b) == 2:
                    _term_positions(b[1], scope, out)
            inner = scope | {b[0].data for b in t[1]
                             if len(b) == 2 and b[0].is_leaf()}
            for c in t[2:]:
                _term_positions(c, inner, out)
            return
        if hd == '!':
            _term_positions(t[1], scope, out)
            return
    for c in t[1:]:
        _term_positions(c, scope, out)


def _bound_symbols(exprs):
    from ddsmt import nodes
    out = set()
    for n in nodes.dfs(exprs):
        if n.has_ident() and len(n) > 2 and not n[1].is_leaf() \
                and n.get_ident() in ('let', 'forall', 'exists'):
            out |= {v[0].data for v in n[1]
                    if len(v) == 2 and v[0].is_leaf()}
    return out


def _user_sorts(exprs):
    """Names of the sorts the script declares itself."""
    out = set()
    for e in exprs:
        if not e.has_ident() or len(e) < 2:
            continue
        idt = e.get_ident()
        if idt in ('declare-sort', 'define-sort', 'declare-datatype') \
                and e[1].is_leaf():
            out.add(e[1].data)
        if idt == 'declare-datatypes' and not e[1].is_leaf():
            out |= {d[0].data for d in e[1] if len(d) > 0 and d[0].is_leaf()}
    return out


def _cvc5_strict_accepts(text):
    """None if cvc5 with strict parsing accepts the script (z3 and cvc5 in
    their default modes coerce between Int and Real), else the message."""
    import cvc5
    tm = cvc5.TermManager()
    slv = cvc5.Solver(tm)
    slv.setOption('strict-parsing', 'true')
    par = cvc5.InputParser(slv)
    par.setStringInput(cvc5.InputLanguage.SMT_LIB_2_6,
                       '(set-logic ALL)' + text, 'q')
    sm = par.getSymbolManager()
    try:
        while True:
            c = par.nextCommand()
            if c.isNull():
                break
            c.invoke(slv, sm)
        return None
    except Exception as e:
        return str(e)[:300]


def _z3_accepts(text):
    import z3
    s = z3.Solver()
    try:
        s.from_string(text)
        return None
    except z3.Z3Exception as e:
        return str(e)[:300]


def _conseq_script(fname, nums, extra):
    """The family's script; with ``extra`` an unused constant zz<k> of every
    declared constant sort is declared as well."""
    from ddsmt.nodes import Node
    fam, sel = FAMS[fname]
    inst = Inst()
    fam(inst, *nums, sel)
    decls = list(inst.decls)
    if extra:
        sorts = []
        for d in decls:
            if d[0] == 'declare-const' and d[2] not in sorts:
                sorts.append(d[2])
        decls += [('declare-const', f'zz{k}', st)
                  for k, st in enumerate(sorts)]
    exprs = [_mk(Node, d) for d in decls]
    for t, s in inst.closed:
        tn = _mk(Node, t)
        if isinstance(tn.data, str):
            continue
        exprs.append(Node('assert', tn) if s == 'Bool'
                     else Node('assert', Node('=', tn, tn)))
    return exprs


def _proposals_of(m, node, exprs):
    props = []
    if hasattr(m, 'mutations'):
        props.extend(m.mutations(node))
    if hasattr(m, 'global_mutations'):
        props.extend(m.global_mutations(node, exprs))
    return props


def conseq_instance(fname, nums, want=None):
    """All proposals of the 'same sort' mutators at every term position of
    one generated script, with the mutator objects living as long as in a
    run of ddSMT: (A) filter and proposals node by node, as the hierarchical
    strategy calls them; (B) all filters first, then the proposals, as
    ddmin does; (C) the same objects on a second input - the script without
    its unused constants zz<k> - after collect_information, as after an
    accepted simplification.  Returns (n_proposals, n_out_of_scope,
    defect|None, skipped_reason|None)."""
    import importlib
    from ddsmt import smtlib, nodeio, nodes
    from ddsmt.mutator_utils import apply_simp, Simplification
    try:
        exprs1 = _conseq_script(fname, nums, True)
        exprs2 = _conseq_script(fname, nums, False)
    except Exception as e:
        return 0, 0, None, f'no instance: {type(e).__name__}'
    e0 = _z3_accepts(nodeio.write_smtlib_to_str(exprs1))
    if e0:
        return 0, 0, None, f'instance not accepted by z3: {e0[:80]}'
    muts = [(cn, getattr(importlib.import_module('ddsmt.' + mn), cn)())
            for mn, cn in CONSEQ_MUTS]
    n = oos = 0
    # strict arithmetic typing where the original script passes it
    strict = fname.startswith('arith') and \
        _cvc5_strict_accepts(nodeio.write_smtlib_to_str(exprs1)) is None

    usersorts = set()

    def judge(exprs, bound, node, scope, cn, props, phase):
        nonlocal n, oos
        for qi, p in enumerate(props):
            n += 1
            repl = list(p.substs.values())
            res = apply_simp(exprs, Simplification(dict(p.substs),
                                                   list(p.fresh_vars)))
            txt = nodeio.write_smtlib_to_str(res)
            err = _z3_accepts(txt)
            if not err and strict:
                # arithmetic: Int and Real must not be mixed (the solvers
                # coerce silently unless asked to be strict)
                err = _cvc5_strict_accepts(txt)
            if not err:
                continue
            used = {x.data for r in repl if r is not None
                    for x in nodes.dfs(r) if x.is_leaf()}
            if cn == 'IntroduceFreshVariable' and any(
                    x.is_leaf() and x.data in usersorts
                    for v in p.fresh_vars if len(v) > 2
                    for x in nodes.dfs(v[2])):
                # known finding C16-fresh-variable-before-sort-declaration
                oos += 1
                continue
            return (f'{cn} on {node.__str__()[:80]} in family {fname} '
                    f'{tuple(nums)} ({phase}): replacement '
                    f'{[r.__str__() for r in repl if r is not None]} with '
                    f'declarations {[v.__str__() for v in p.fresh_vars]} is '
                    f'rejected by the sort checker: {err[:160]}')
        return None

    for phase, exprs in (('A: node by node', exprs1),
                         ('B: filters first', exprs1),
                         ('C: second input, same mutator objects', exprs2)):
        smtlib.collect_information(exprs)
        bound = _bound_symbols(exprs)
        usersorts = _user_sorts(exprs)
        pos = []
        for e in exprs:
            if e.has_ident() and e.get_ident() == 'assert' and len(e) == 2:
                _term_positions(e[1], frozenset(), pos)
        for cn, m in muts:
            try:
                if phase.startswith('B'):
                    acc = [(nd, sc) for nd, sc in pos if m.filter(nd)]
                else:
                    acc = pos
            except Exception:
                continue
            for node, scope in acc:
                try:
                    if cn == 'ReplaceByChild' and \
                            smtlib.get_sort(node) is None:
                        # 'a child of the same sort' is only a promise when
                        # the sort is known
                        continue
                    if not phase.startswith('B') and not m.filter(node):
                        continue
                    props = _proposals_of(m, node, exprs)
                except Exception:
                    continue             # C04's business
                d = judge(exprs, bound, node, scope, cn, props, phase)
                if d:
                    return n, oos, {'family': fname, 'nums': list(nums),
                                    'msg': d}, None
    return n, oos, None, None


def run_recollect(fnames, tier):
    """History: the tables and caches follow the *current* input.  Input A is
    queried completely; input B is A with the width numeral of the first
    bit-vector declaration changed by a substitution, so B shares all other
    node objects (and their ids) with A.  After collect_information(B) every
    shared node must give what a freshly parsed copy of B gives."""
    import time
    from ddsmt import smtlib, nodeio, nodes
    from ddsmt.nodes import Node
    _conseq_options()
    t0 = time.time()
    n = nsc = 0
    bad = None
    for fname in fnames:
        for nums in CONSEQ_NUMS[:2]:
            try:
                A = _conseq_script(fname, nums, False)
            except Exception:
                continue
            target = None
            for e in A:
                if e.has_ident() and e.get_ident() == 'declare-const' and \
                        len(e) == 3 and not e[2].is_leaf() and len(e[2]) == 3 \
                        and e[2][1] == 'BitVec':
                    target = e[2][2]
                    break
            if target is None:
                continue
            nsc += 1
            smtlib.collect_information(A)
            for x in nodes.dfs(A):
                smtlib.get_sort(x)
                smtlib.get_bv_width(x)
            B = nodes.substitute(A, {target.id: Node(str(int(target.data) + 1))})
            fresh = list(nodeio.parse_smtlib(nodeio.write_smtlib_to_str(B)))
            smtlib.collect_information(B)
            got = []
            for shared in nodes.dfs(B):
                try:
                    got.append((smtlib.get_bv_width(shared),
                                smtlib.get_sort(shared)))
                except Exception:
                    got.append(None)
            # the reference values come from a state without history: the
            # caches also answer structurally equal nodes, so a fresh copy
            # queried in the same state would inherit a stale entry
            smtlib.reset_information()
            smtlib.collect_information(fresh)
            for shared, new, g in zip(nodes.dfs(B), nodes.dfs(fresh), got):
                n += 1
                if g is None:
                    continue
                try:
                    w1, s1 = g
                    w2, s2 = smtlib.get_bv_width(new), smtlib.get_sort(new)
                except Exception:
                    continue
                if w1 != w2 or (s1 is None) != (s2 is None) or (
                        s1 is not None and s1.__str__() != s2.__str__()):
                    if bad is None:
                        bad = ({'family': fname, 'nums': list(nums)},
                               f'after the declaration changed to width '
                               f'{int(target.data) + 1} and '
                               f'collect_information ran again, '
                               f'{shared.__str__()[:60]} still has width {w1} '
                               f'/ sort {s1.__str__() if s1 else None} '
                               f'(fresh copy: {w2} / '
                               f'{s2.__str__() if s2 else None}) in family '
                               f'{fname}')
    return {'status': 'VIOLATED' if bad else ('CONFIRMED' if n else 'VACUOUS'),
            'cex': bad[0] if bad else None,
            'exc': {'type': 'Violation', 'msg': bad[1]} if bad else None,
            'paths': n, 'paths_ok': n, 'solver_checks': 0,
            'solver_seconds': 0.0, 'samples': [{'scripts': nsc}],
            'wall_s': round(time.time() - t0, 2),
            'note': 'concrete two-input histories (auxiliary)'}


def _conseq_options():
    from ddsmt import options, mutators, cli
    setattr(options, '__PARSED_ARGS', options.parse_options(
        mutators, ['in.smt2', 'out.smt2', 'cmd']))
    cli.setup_logging()


def run_conseq(fnames, tier):
    import time
    t0 = time.time()
    _conseq_options()
    n = oos = 0
    skipped = []
    bad = None
    nums = CONSEQ_NUMS if tier != 'quick' else CONSEQ_NUMS[:2] + CONSEQ_NUMS[3:]
    for fname in fnames:
        for nu in nums:
            k, o, d, sk = conseq_instance(fname, nu)
            n += k
            oos += o
            if sk:
                skipped.append(f'{fname}{nu}: {sk}')
            if d and bad is None:
                bad = d
        if bad:
            break
    return {'status': 'VIOLATED' if bad else 'CONFIRMED',
            'cex': {k: v for k, v in bad.items() if k != 'msg'} if bad
            else None,
            'exc': {'type': 'Violation', 'msg': bad['msg']} if bad else None,
            'paths': n, 'paths_ok': n, 'solver_checks': n,
            'solver_seconds': 0.0,
            'samples': [{'families': fnames[:3], 'numerals': list(nums)}],
            'queries': {'proposals_sort_checked': n,
                        'in_known_regions': oos,
                        'instances_skipped': skipped[:6],
                        'n_instances_skipped': len(skipped)},
            'note': 'z3 front end as independent sort checker of the script '
                    'after each proposed replacement (concrete numerals)',
            'wall_s': round(time.time() - t0, 2)}


def conseq_known_witness2():
    """Replay of known finding C16-fresh-variable-before-sort-declaration."""
    from ddsmt import smtlib, nodeio, mutators_smtlib
    from ddsmt.mutator_utils import apply_simp
    exprs = list(nodeio.parse_smtlib(
        '(set-logic ALL)(declare-datatype P ((mk (fst Int) (snd Int))))'
        '(declare-const p P)(assert (= (mk (fst p) 1) p))'))
    smtlib.collect_information(exprs)
    t = exprs[3][1][1]
    m = mutators_smtlib.IntroduceFreshVariable()
    if not m.filter(t):
        return None
    for p in m.global_mutations(t, exprs):
        txt = nodeio.write_smtlib_to_str(apply_simp(exprs, p))
        err = _z3_accepts(txt)
        if err:
            return ('IntroduceFreshVariable declares the fresh variable of '
                    'sort P before (declare-datatype P ...): '
                    + txt.replace(chr(10), ' ') + ' -> ' + err[:120])
    return None


def conseq_known_witness():
    """Replay of known finding C16-bound-symbol-out-of-scope: a let-bound
    symbol offered outside its binder."""
    from ddsmt import smtlib, nodeio, mutators_core
    from ddsmt.mutator_utils import apply_simp
    exprs = list(nodeio.parse_smtlib(
        '(declare-const a Int)(declare-const b Int)'
        '(assert (= a (let ((u (+ b 1))) (* u u))))'))
    smtlib.collect_information(exprs)
    a = exprs[2][1][1]
    m = mutators_core.ReplaceByVariable()
    for p in m.mutations(a):
        res = apply_simp(exprs, p)
        txt = nodeio.write_smtlib_to_str(res)
        if ' u ' in txt.split('(let')[0] and _z3_accepts(txt):
            return ('ReplaceByVariable replaces a by the let-bound u outside '
                    'its binder: ' + txt.replace(chr(10), ' '))
    return None


# ---------------- differential sort inference against z3 / strict cvc5

SIG_POOL = [
    ('p', 'Bool'), ('i', 'Int'), ('r', 'Real'), ('x', '(_ BitVec 8)'),
    ('z', '(_ BitVec 4)'), ('st', 'String'), ('f', '(_ FloatingPoint 8 24)'),
    ('rm', 'RoundingMode'), ('a', '(Array Int Int)'),
    ('b1', '(_ BitVec 1)'), ('d', '(_ FloatingPoint 11 53)'),
    ('aa', '(Array (_ BitVec 4) (_ BitVec 8))'),
    # second variables / constants / applications (sort unknown to ddSMT for
    # the applications of declared functions)
    ('q', 'Bool'), ('j', 'Int'), ('s', 'Real'), ('y', '(_ BitVec 8)'),
    ('su', 'String'), ('g', '(_ FloatingPoint 8 24)'),
    ('1', None), ('1.5', None), ('#x0f', None), ('"a"', None),
    ('true', None), ('(fb x)', None), ('(fi i)', None), ('(fr r)', None),
    ('(bvnot x)', None), ('(+ i 1)', None),
]
SIG_FUNS = ('(declare-fun fb ((_ BitVec 8)) (_ BitVec 8))'
            '(declare-fun fi (Int) Int)(declare-fun fr (Real) Real)')
SIG_INDEXED = ['(_ extract 3 1)', '(_ zero_extend 2)', '(_ sign_extend 3)',
               '(_ repeat 2)', '(_ rotate_left 1)', '(_ rotate_right 3)',
               '(_ to_fp 8 24)', '(_ to_fp 11 53)',
               '(_ to_fp_unsigned 8 24)', '(_ fp.to_ubv 8)',
               '(_ fp.to_sbv 4)', '(_ divisible 3)', '(_ int2bv 8)']
SIG_EXTRA = ['bv2nat', 'bvlshr', 'str.++', 'str.at', 'str.substr',
             'str.replace', 'str.replace_all', 'str.from_int',
             'str.from_code', 'str.to_re', 're.++', 'int2bv', 'fp.to_real',
             'to_int', 'is_int', '>=', 'bvredor', 'bvredand', 'seq.unit',
             'seq.len', 'seq.nth', 'select', 'store']


def sig_operators():
    """Every operator-like string constant in the *current* source of
    ddsmt/smtlib.py (so a newly added inference branch is picked up), plus
    some standard operators the inference does not know (answer must be
    'unknown' or right)."""
    import ast
    import re
    from ddsmt import smtlib
    src = open(smtlib.__file__).read()
    ops = set(SIG_EXTRA)
    for n in ast.walk(ast.parse(src)):
        if isinstance(n, ast.Constant) and isinstance(n.value, str) and \
                re.fullmatch(r'[A-Za-z_.<>=+*/-][A-Za-z0-9_.<>=+*/-]*',
                             n.value):
            ops.add(n.value)
    ops -= {'_', 'as', 'let', 'forall', 'exists', 'true', 'false',
            'declare-const', 'declare-fun', 'define-fun', 'declare-datatype',
            'declare-datatypes', 'set-info', 'set-logic'}
    return sorted(ops) + SIG_INDEXED


def _norm_sort(txt):
    txt = ' '.join(txt.split())
    return {'Float16': '(_ FloatingPoint 5 11)',
            'Float32': '(_ FloatingPoint 8 24)',
            'Float64': '(_ FloatingPoint 11 53)',
            'Float128': '(_ FloatingPoint 15 113)'}.get(txt, txt)


def cvc5_strict_sort(decls, term):
    """Sort of ``term`` according to cvc5 with strict parsing (None if it
    is rejected as not well-sorted)."""
    import cvc5
    tm = cvc5.TermManager()
    slv = cvc5.Solver(tm)
    slv.setOption('strict-parsing', 'true')
    par = cvc5.InputParser(slv)
    par.setStringInput(cvc5.InputLanguage.SMT_LIB_2_6,
                       f'(set-logic ALL){decls}(assert (= {term} {term}))',
                       'q')
    sm = par.getSymbolManager()
    try:
        while True:
            c = par.nextCommand()
            if c.isNull():
                break
            c.invoke(slv, sm)
        return _norm_sort(str(slv.getAssertions()[0][0].getSort()))
    except Exception:
        return None


def sig_check_term(term, zd, decls):
    """None (fine / not well-sorted), or a defect description."""
    import z3
    from ddsmt import nodeio, smtlib
    try:
        fz = z3.parse_smt2_string(f'(assert (= {term} {term}))', decls=zd)
    except z3.Z3Exception:
        return None, False
    zs = fz[0].arg(0).sort()
    node = list(nodeio.parse_smtlib(term))[0]
    got = smtlib.get_sort(node)
    w = smtlib.get_bv_width(node)
    zsort = _norm_sort(zs.sexpr())
    bad = None
    if got is not None and _norm_sort(got.__str__()) != zsort:
        bad = f'get_sort({term}) = {got.__str__()}'
    elif w != -1 and not (zs.kind() == z3.Z3_BV_SORT and zs.size() == w):
        bad = f'get_bv_width({term}) = {w}'
    if bad is None:
        return None, True
    cs = cvc5_strict_sort(decls, term)
    if cs is None:
        return None, False      # not well-sorted by the standard's rules
    if got is not None and _norm_sort(got.__str__()) == cs and (
            w == -1 or cs == f'(_ BitVec {w})'):
        return None, True       # z3 is lenient, cvc5 agrees with ddSMT
    return (f'{bad}, but the term has sort {cs} (z3: {zsort}, cvc5 strict: '
            f'{cs})'), True


def run_sig(ops, tier, want=None):
    import itertools
    import time
    import z3
    from ddsmt import nodeio, smtlib
    _conseq_options()
    t0 = time.time()
    decls = ''.join(f'(declare-const {n} {sv})' for n, sv in SIG_POOL
                    if sv) + SIG_FUNS
    zd = {}
    for n, sv in SIG_POOL:
        if sv:
            zd[n] = z3.parse_smt2_string(
                f'(declare-const {n} {sv})(assert (= {n} {n}))')[0].arg(0)
    fv = z3.parse_smt2_string(
        SIG_FUNS + '(assert (= (fb x) (fb x)))(assert (= (fi i) (fi i)))'
        '(assert (= (fr r) (fr r)))', decls=zd)
    for fn, t in zip(('fb', 'fi', 'fr'), fv):
        zd[fn] = t.arg(0).decl()
    smtlib.collect_information(list(nodeio.parse_smtlib(decls)))
    names = [n for n, _ in SIG_POOL]
    small = names[:12] if tier == 'quick' else names[:18]
    n = nws = 0
    bad = None
    samples = []
    for op in ops:
        fp4 = op in ('fp.fma',)
        for ar in (1, 2, 3, 4):
            if ar == 4 and not fp4:
                continue
            pool = names if ar <= 2 else small
            if ar == 4:
                pool = ['rm', 'f', 'g', 'd', '(fb x)']
            for args in itertools.product(pool, repeat=ar):
                term = f'({op} {" ".join(args)})'
                if want is not None and term != want:
                    continue
                n += 1
                r, ws = sig_check_term(term, zd, decls)
                nws += 1 if ws else 0
                if ws and len(samples) < 3 and ar == 2:
                    samples.append({'term': term})
                if r and bad is None:
                    bad = {'term': term, 'msg': r}
            if bad:
                break
        if bad:
            break
    return {'status': 'VIOLATED' if bad else
            ('CONFIRMED' if nws or want else 'VACUOUS'),
            'cex': {'term': bad['term']} if bad else None,
            'exc': {'type': 'Violation', 'msg': bad['msg']} if bad else None,
            'paths': n, 'paths_ok': n, 'solver_checks': n,
            'solver_seconds': 0.0, 'samples': samples,
            'queries': {'candidate_terms': n, 'well_sorted_terms_compared':
                        nws, 'operators': len(ops)},
            'note': 'ground truth = sort computed by z3 for every candidate '
                    'term z3 accepts; a disagreement is confirmed with cvc5 '
                    'under strict parsing before it is reported',
            'wall_s': round(time.time() - t0, 2)}


def _setup():
    from vlib import shims
    shims.install_hash('T')


def _reset():
    from vlib import shims
    from ddsmt import smtlib
    shims.reset_ids()
    smtlib.reset_information()


def bounds(tier):
    return {'numerals': f'1..{MAXN} symbolic', 'families': len(FAMS)}


def partitions(tier):
    parts = []
    for fname in FAMS:
        parts.append({'name': fname.replace('.', '').replace('+', 'plus')
                      .replace('-', 'minus').replace('*', 'times')
                      .replace('/', 'divide').replace('<=', 'le')
                      .replace('>=', 'ge').replace('<', 'lt')
                      .replace('>', 'gt').replace('=', 'eq'),
                      'fname': fname, 'fn': make(fname), 'setup': _setup,
                      'reset': _reset,
                      'budget_s': 150 if tier == 'quick' else 800,
                      'bounds': {'family': fname}})
    parts.append({'name': 'defaults', 'kind': 'E2', 'run': run_defaults,
                  'budget_s': 60})
    parts.append({'name': 'generator_typing', 'kind': 'E2',
                  'run': run_generator_typing, 'budget_s': 120})
    ops = sig_operators()
    nch = 16
    for k in range(nch):
        chunk = ops[k::nch]
        parts.append({'name': f'sig_{k}', 'kind': 'E2',
                      'run': (lambda chunk=chunk: run_sig(chunk, tier)),
                      'budget_s': 900, 'bounds': {'operators': len(chunk)}})
    names = list(FAMS)
    parts.append({'name': 'recollect', 'kind': 'native',
                  'run': (lambda: run_recollect(list(FAMS), tier)),
                  'budget_s': 300})
    nch = 14
    for k in range(nch):
        chunk = names[k::nch]
        parts.append({'name': f'conseq_{k}', 'kind': 'E2',
                      'run': (lambda chunk=chunk: run_conseq(chunk, tier)),
                      'budget_s': 300, 'bounds': {'families': len(chunk)}})
    return parts


def replay(part, cex):
    if part == 'recollect':
        r = run_recollect([cex['family']], 'quick')
        return r['exc']['msg'] if r['exc'] else None
    if part.startswith('sig_'):
        r = run_sig(sig_operators(), 'thorough', cex['term'])
        return r['exc']['msg'] if r['exc'] else None
    if part == 'known_out_of_scope':
        _conseq_options()
        return conseq_known_witness()
    if part == 'known_fresh_before_sort':
        _conseq_options()
        return conseq_known_witness2()
    if part.startswith('conseq'):
        _conseq_options()
        n, o, d, sk = conseq_instance(cex['family'], tuple(cex['nums']))
        return d['msg'] if d else None
    if part == 'defaults':
        r = run_defaults()
        return str(r['cex']) if r['cex'] else None
    for p in partitions('quick'):
        if p['name'] == part:
            try:
                return check_instance(p['fname'], cex['a'], cex['b'],
                                      cex['c'])
            except Exception as e:
                return f'{type(e).__name__}: {e}'
    return None
