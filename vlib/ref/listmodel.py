"""Independent model of s-expression trees as nested Python lists
(leaf = str, inner node = list) with structural recursion only."""


def eq(a, b):
    if isinstance(a, list) != isinstance(b, list):
        return False
    if not isinstance(a, list):
        return a == b
    if len(a) != len(b):
        return False
    for x, y in zip(a, b):
        if not eq(x, y):
            return False
    return True


def dfs(trees):
    """Pre-order over a list of trees."""
    out = []
    for t in trees:
        out.append(t)
        if isinstance(t, list):
            out.extend(dfs(t))
    return out


def bfs(trees):
    out = []
    level = list(trees)
    while level:
        nxt = []
        for t in level:
            out.append(t)
            if isinstance(t, list):
                nxt.extend(t)
        level = nxt
    return out


def count_nodes(trees):
    return len(dfs(trees))


def count_exprs(trees):
    return sum(1 for t in dfs(trees) if isinstance(t, list))


def subst(tree, key_eq, repl):
    """Replace every subtree for which key_eq(subtree) holds by ``repl``
    (inserted as given, not revisited); returns the new tree."""
    if key_eq(tree):
        return repl
    if isinstance(tree, list):
        return [subst(c, key_eq, repl) for c in tree]
    return tree


DELETE = object()


def subst_paths(trees, path_repl, struct_key=None, struct_val=None):
    """General model of one simplification on a *list* of trees.

    path_repl: {path tuple: replacement | DELETE} designates positions (the
    identity-keyed entries); struct_key/struct_val a structural entry.
    A position replaced through its identity is afterwards subject to the
    structural rule once (at its root only), as ddsmt.nodes.substitute
    documents by its two consecutive look-ups; replacement contents are
    never revisited."""
    def rec(t, path):
        if path in path_repl:
            r = path_repl[path]
            if r is DELETE:
                return DELETE
            if struct_key is not None and eq(r, struct_key):
                return struct_val
            return r
        if struct_key is not None and eq(t, struct_key):
            return struct_val
        if isinstance(t, list):
            out = []
            for i, c in enumerate(t):
                r = rec(c, path + (i,))
                if r is not DELETE:
                    out.append(r)
            return out
        return t
    out = []
    for i, t in enumerate(trees):
        r = rec(t, (i,))
        if r is not DELETE:
            out.append(r)
    return out
