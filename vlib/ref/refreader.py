"""Reference reader for SMT-LIB 2.6 concrete syntax (section 3.1 of the
standard), independent of ddsmt.nodeio.

``read(text)`` returns the nesting structure as nested Python lists with the
token texts as ``str`` leaves, comments kept as leaves (text from ';' to the
end of the line, *including* the terminating LF when present, which is what
ddSMT documents), or one of the markers

  UNBALANCED   a ')' without '(' , a '(' never closed, an unterminated string
               literal or quoted symbol -> outside the quantifier of C07/C08
  ADJACENT     a simple token directly followed by '"' or '|' without any
               separator; the standard lexes this as two lexemes, ddSMT as
               one, and the property only speaks about lexemes *separated by
               white space*, so such texts are outside the claim (stated in
               evidence)

Lexical rules used: white space is SPACE, TAB, LF, CR; a comment starts at ';'
outside literals; a string literal is '"' ... '"' with '""' as escaped quote;
a quoted symbol is '|' ... '|'; every other maximal run of characters that are
not white space, parentheses, ';', '"' or '|' is one simple token (numeral,
decimal, #b/#x literal, symbol or keyword - the reader does not need to tell
them apart).  Written with plain index loops so that CrossHair can execute it
on a symbolic string next to the real parser.
"""

UNBALANCED = 'UNBALANCED'
ADJACENT = 'ADJACENT'
WS = ' \t\n\r'
DELIM = '();"|'


def read(text):
    stack = [[]]
    i = 0
    n = len(text)
    while i < n:
        c = text[i]
        if c == '(':
            stack.append([])
            i += 1
        elif c == ')':
            if len(stack) == 1:
                return UNBALANCED
            top = stack.pop()
            stack[-1].append(top)
            i += 1
        elif c == ' ' or c == '\t' or c == '\n' or c == '\r':
            i += 1
        elif c == ';':
            j = i + 1
            while j < n and text[j] != '\n':
                j += 1
            if j < n:
                j += 1
            stack[-1].append(text[i:j])
            i = j
        elif c == '"':
            j = i + 1
            while True:
                if j >= n:
                    return UNBALANCED
                if text[j] == '"':
                    if j + 1 < n and text[j + 1] == '"':
                        j += 2
                        continue
                    break
                j += 1
            stack[-1].append(text[i:j + 1])
            i = j + 1
        elif c == '|':
            j = i + 1
            while j < n and text[j] != '|':
                j += 1
            if j >= n:
                return UNBALANCED
            stack[-1].append(text[i:j + 1])
            i = j + 1
        else:
            j = i + 1
            while j < n:
                d = text[j]
                if (d == ' ' or d == '\t' or d == '\n' or d == '\r'
                        or d == '(' or d == ')' or d == ';'):
                    break
                if d == '"' or d == '|':
                    return ADJACENT
                j += 1
            stack[-1].append(text[i:j])
            i = j
    if len(stack) != 1:
        return UNBALANCED
    return stack[0]


def tokens(tree, out=None):
    """Flatten nested lists to the token sequence, parentheses included."""
    if out is None:
        out = []
    for t in tree:
        if isinstance(t, list):
            out.append('(')
            tokens(t, out)
            out.append(')')
        else:
            out.append(t)
    return out


def is_comment(tok):
    return isinstance(tok, str) and len(tok) > 0 and tok[0] == ';'


def norm_comment(tok):
    """Comment text without its line terminator."""
    if is_comment(tok) and tok[-1] == '\n':
        return tok[:-1]
    return tok


def norm_tree(tree):
    return [norm_tree(t) if isinstance(t, list) else norm_comment(t)
            for t in tree]


class CharSeq:
    """A text given as a Python list of one-character strings (concrete or
    symbolic).  Offers the part of the str interface that both readers use
    (len, indexing, slicing to str): indexing a Python list is cheap, while
    indexing a long symbolic concatenation goes through the solver."""

    def __init__(self, chars):
        self.chars = chars

    def __len__(self):
        return len(self.chars)

    def __getitem__(self, i):
        if isinstance(i, slice):
            return ''.join(self.chars[i])
        return self.chars[i]


def explode(pieces):
    """CharSeq of the concatenation of ``pieces`` (strings); concrete pieces
    are split natively."""
    from crosshair.tracers import NoTracing
    chars = []
    for p in pieces:
        with NoTracing():
            concrete = type(p) is str
            if concrete:
                chars.extend(p)
        if not concrete:
            for j in range(len(p)):
                chars.append(p[j])
    return CharSeq(chars)
