"""Independent restatement of the comparison rule documented in
docs/quickstart.rst ("How Behavior is Compared with the Golden Run") and
docs/guide-scenarios.rst (cross check)."""


def stream_ok(ignored, match, golden_stream, run_stream):
    """the stream is ignored, or contains the configured match string, or
    (absent a match string) equals the golden stream."""
    if ignored:
        return True
    if match is not None and match != '':
        if run_stream is None:
            return False
        return match in run_stream
    return golden_stream == run_stream


def accept(g_exit, g_out, g_err, r_exit, r_out, r_err, ignore_out,
           ignore_err, match_out, match_err):
    if r_exit != g_exit:
        return False
    return (stream_ok(ignore_out, match_out, g_out, r_out)
            and stream_ok(ignore_err, match_err, g_err, r_err))


def extension(path):
    """Extension of a POSIX path as the documentation means it: the part of
    the last path component from its last dot, unless that component has no
    dot after its leading dots."""
    slash = path.rfind('/')
    base = path[slash + 1:]
    k = 0
    while k < len(base) and base[k] == '.':
        k += 1
    dot = base.rfind('.')
    if dot < k:
        return ''
    return base[dot:]
