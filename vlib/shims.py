"""Module-attribute shims installed by harness processes (never by replays).

See DESIGN.md section 3.  Nothing in /repo is edited: the shims are injected
into the namespaces of the imported ddsmt modules.
"""
import os
import struct as _struct
import sys

REPO = os.environ.get('VERIF_REPO', '/repo')


def import_repo():
    """Make ``import ddsmt`` resolve to the current working tree of REPO."""
    if sys.path[0] != REPO:
        sys.path.insert(0, REPO)
    # ddsmt.options parses sys.argv on first use (debug_utils does so at
    # import time): give it a harmless command line.
    sys.argv = ['ddsmt', 'in.smt2', 'out.smt2', 'cmd']
    import ddsmt  # noqa: F401
    assert os.path.realpath(ddsmt.__path__[0]).startswith(
        os.path.realpath(REPO)), ddsmt.__path__
    return ddsmt


class Fuel(Exception):
    """Raised when code under test performs more steps than its bound."""


class _FuelState:
    left = None


def set_fuel(n):
    _FuelState.left = n


def burn(k=1):
    if _FuelState.left is not None:
        _FuelState.left -= k
        if _FuelState.left < 0:
            _FuelState.left = None
            raise Fuel('fuel exhausted')


LEAF_HASH = (1 << 40) + 7      # never equal to a node id (int dict keys)


def _fuel_on_node_hash():
    import ddsmt.nodes as N

    def __hash__(self):
        burn()
        return self.hash

    N.Node.__hash__ = __hash__


def reset_ids(start=1000):
    """Node ids come from a process-wide counter; restart it on every path so
    that the paths of one exploration are reproducible (dict probing order
    of id keys would otherwise differ between runs -> NotDeterministic)."""
    import ddsmt.nodes as N
    N.Node._Node__ID_COUNTER.value = start


def install_hash(mode='S'):
    """Replace the ``hash`` seen by ddsmt.nodes.

    mode S: every leaf hashes to a constant; tuples hash structurally.
    mode T: concrete leaves keep their real string hash (ddsmt.smtlib probes
            str-keyed dicts with Node objects), symbolic leaves hash to a
            constant - only sound where symbolic leaves are never looked up
            in, or compared through Node.__eq__ with, concrete leaves.
    """
    from crosshair.tracers import NoTracing
    import ddsmt.nodes as N

    def vhash(data):
        burn()
        with NoTracing():
            t = type(data)
        if t is tuple:
            h = len(data) + 1
            for c in data:
                h = (h * 31 + c.hash) % 2305843009213693951
            return h + 1
        if mode == 'T' and t is str:
            with NoTracing():
                return hash(data)
        return LEAF_HASH

    N.hash = vhash
    _fuel_on_node_hash()


HASH_PARAMS = {'a': 1, 'm': 31}


def install_hash_family():
    """mode H (C12): hash chosen from a two-parameter family.

    leaf hash = a * code + 7 (code = ord of the single character, 0 for the
    empty leaf), tuple hash = sum m**i * hash_i + len + 1.  a = 0 makes all
    leaves collide, m = 0 all equally long tuples; a = 1, m = 31 is
    collision-free on small trees.  Equal data always hash equal."""
    from crosshair.tracers import NoTracing
    import ddsmt.nodes as N

    def vhash(data):
        burn()
        with NoTracing():
            t = type(data)
        a, m = HASH_PARAMS['a'], HASH_PARAMS['m']
        if t is tuple:
            h = len(data) + 1
            k = 1
            for c in data:
                h = h + k * c.hash
                k = k * m
            return h
        if len(data) == 0:
            return 7
        return a * ord(data[0]) + 7 + 1000 * (len(data) - 1)

    N.hash = vhash


def install_struct():
    """CrossHair packs '=ii' big endian but unpacks native: run natively."""
    from crosshair.tracers import NoTracing
    from crosshair.core import deep_realize
    import ddsmt.nodes as N

    class S:
        @staticmethod
        def pack(fmt, *a):
            a = deep_realize(a)
            with NoTracing():
                return _struct.pack(fmt, *a)

        @staticmethod
        def unpack(fmt, b):
            b = deep_realize(b)
            with NoTracing():
                return _struct.unpack(fmt, bytes(b))

    N.struct = S


def to_list(node):
    """Nested-list view of a Node tree (leaf -> str)."""
    if node.is_leaf():
        return node.data
    return [to_list(c) for c in node.data]


def install_node_format():
    """f-strings containing a Node: CrossHair deep-realises every formatted
    object (through Node.__getstate__, which asserts on symbolic leaf data)
    and formats it with tracing off.  Keep the node symbolic and format it
    with the real Node.__str__ under tracing."""
    from crosshair.tracers import ResumedTracing, is_tracing
    import ddsmt.nodes as N

    def __ch_deep_realize__(self, memo):
        return self

    def __format__(self, spec):
        if is_tracing():
            return format(self.__str__(), spec)
        with ResumedTracing():
            return format(self.__str__(), spec)

    N.Node.__ch_deep_realize__ = __ch_deep_realize__
    N.Node.__format__ = __format__
