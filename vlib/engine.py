"""Path-exhaustive symbolic execution of a harness with CrossHair + z3.

One call of ``explore`` runs one *partition*: a harness function whose
parameters are symbolic values (z3-backed proxies created by CrossHair) is
executed over and over, each run following one feasible path, until the
decision tree is exhausted, a violation is found or the budget is used up.

The deciding step is the solver: a finished path stands for *every* value of
the parameters that satisfies its path condition, and the tree is exhausted
only when z3 has shown every other branch infeasible.

Harness protocol
  * ``assume(cond)``      - precondition; paths violating it are discarded
  * ``raise Violation(..)`` or any other escaping ``Exception`` - the
    property is broken on this path; parameters are realised to concrete
    values (a model of the path condition) and returned as counterexample
  * normal return        - the property holds on this path
"""
import inspect
import sys
import time
import traceback

import z3
import crosshair.core_and_libs  # noqa: F401  (registers library models)
from crosshair.core import explore_paths, deep_realize
from crosshair.options import DEFAULT_OPTIONS
from crosshair.statespace import RootNode, VerificationStatus
from crosshair.tracers import NoTracing, ResumedTracing, is_tracing  # noqa: F401


class Violation(Exception):
    """Raised by a harness when the property is broken on the current path."""


class Skip(Exception):
    """Precondition not met on this path (raised by ``assume``)."""


_SKIPPED = object()


def assume(cond):
    if not cond:
        raise Skip()


class _SolverStats:
    checks = 0
    seconds = 0.0
    unknown = 0


def _instrument_solver():
    if getattr(z3.Solver, '_verif_wrapped', False):
        return
    orig = z3.Solver.check

    def check(self, *a):
        t = time.perf_counter()
        r = orig(self, *a)
        _SolverStats.seconds += time.perf_counter() - t
        _SolverStats.checks += 1
        if r == z3.unknown:
            _SolverStats.unknown += 1
        return r

    z3.Solver.check = check
    z3.Solver._verif_wrapped = True


def _plain(v):
    """JSON-able rendering of a realised value."""
    if isinstance(v, (str, int, bool, float)) or v is None:
        return v
    if isinstance(v, (list, tuple)):
        return [_plain(x) for x in v]
    if isinstance(v, dict):
        return {str(k): _plain(x) for k, x in v.items()}
    return repr(v)


def _realized(pre_args):
    r1 = deep_realize(pre_args)
    r2 = deep_realize(_TRACKED)
    with NoTracing():
        real = {}
        for k in r1.arguments:
            real[k] = r1.arguments[k]
        for k in r2:
            real[k] = r2[k]
        return _plain(real)


def explore(fn, budget_s=60.0, per_path_timeout=20.0, max_paths=10**9,
            samples=3, on_reset=None):
    """Explore ``fn`` (annotated parameters become symbolic).

    Returns a dict:
      status   CONFIRMED  - tree exhausted, every path completed without violation
               VIOLATED   - a path broke the property (``cex`` holds a model)
               UNKNOWN    - budget exhausted / some path could not be decided
               VACUOUS    - exhausted but no path satisfied the preconditions
    """
    _instrument_solver()
    sig = inspect.signature(fn)
    root = RootNode()
    st = {'paths': 0, 'ok': 0, 'skipped': 0, 'cex': None, 'samples': [],
          'exc': None}

    def run(args):
        _TRACKED.clear()
        if on_reset is not None:
            with NoTracing():
                on_reset()
        try:
            return fn(*args.args, **args.kwargs)
        except Skip:
            return _SKIPPED

    def done(space, pre_args, post_args, ret, exc, exc_stack):
        st['paths'] += 1
        if ret is _SKIPPED:
            st['skipped'] += 1
            return st['paths'] >= max_paths
        if exc is None:
            st['ok'] += 1
            if len(st['samples']) < samples:
                space.detach_path()
                try:
                    st['samples'].append(_realized(pre_args))
                except Exception:  # pragma: no cover
                    pass
            return st['paths'] >= max_paths
        space.detach_path()
        cexval = _realized(pre_args)
        with NoTracing():
            st['cex'] = cexval
            try:
                msg = str(deep_realize(exc.args[0])) if exc.args else ''
            except Exception:
                msg = '<unprintable>'
            st['exc'] = {
                'type': type(exc).__name__,
                'msg': msg[:2000],
                'stack': ''.join(traceback.format_list(list(exc_stack)[-6:]))[-3000:]
                if exc_stack else '',
            }
        return True

    opts = DEFAULT_OPTIONS.overlay(per_condition_timeout=float(budget_s),
                                   per_path_timeout=float(per_path_timeout),
                                   max_uninteresting_iterations=sys.maxsize)
    t0 = time.time()
    c0, s0 = _SolverStats.checks, _SolverStats.seconds
    u0 = _SolverStats.unknown
    err = None
    try:
        explore_paths(run, sig, opts, root, done)
    except BaseException as e:  # engine trouble is never a verdict
        err = f'{type(e).__name__}: {e}'
        traceback.print_exc(file=sys.stderr)
    wall = time.time() - t0
    exhausted = False
    tree_status = None
    try:
        exhausted = bool(root.child.is_exhausted())
        tree_status = root.child.get_result().verification_status
    except Exception:
        pass
    stats = {}
    try:
        for k, v in root.stats().items():
            stats[getattr(k, 'name', str(k))] = v
    except Exception:
        pass
    if st['cex'] is not None:
        status = 'VIOLATED'
    elif err is not None:
        status = 'UNKNOWN'
    elif exhausted and (tree_status == VerificationStatus.CONFIRMED or (
            # RealBasedSymbolicFloat caps the tree result at UNKNOWN although
            # every path was decided: accept when floats are deliberately
            # modelled as reals (fresh_real) and nothing was left undecided
            _REAL_MODEL[0] and stats.get('UNKNOWN', 0) == 0
            and _SolverStats.unknown - u0 == 0)):
        status = 'CONFIRMED' if st['ok'] > 0 else 'VACUOUS'
    elif exhausted and st['ok'] == 0 and tree_status is None:
        status = 'VACUOUS'
    else:
        status = 'UNKNOWN'
    return {
        'status': status,
        'exhausted': exhausted,
        'tree_status': getattr(tree_status, 'name', None),
        'paths': st['paths'],
        'paths_ok': st['ok'],
        'paths_skipped': st['skipped'],
        'cex': st['cex'],
        'exc': st['exc'],
        'samples': st['samples'],
        'solver_checks': _SolverStats.checks - c0,
        'solver_seconds': round(_SolverStats.seconds - s0, 3),
        'solver_unknown': _SolverStats.unknown - u0,
        'wall_s': round(wall, 2),
        'tree_stats': stats,
        'engine_error': err,
        'floats_as_reals': _REAL_MODEL[0],
    }


_TRACKED = {}
_REAL_MODEL = [False]


def track(name, value):
    """Make a symbolic value created inside the harness part of the
    counterexample / samples (besides the harness parameters)."""
    _TRACKED[name] = value
    return value


def fresh_real(name='real'):
    """A symbolic float modelled as a mathematical real (no IEEE rounding);
    tracked under ``name``."""
    from crosshair.libimpl.builtinslib import (RealBasedSymbolicFloat,
                                               ModelingDirector)
    from crosshair.statespace import context_statespace
    _REAL_MODEL[0] = True
    with NoTracing():
        space = context_statespace()
        # concrete float operands are lifted into the representation chosen
        # for ``float`` on this path: pin it to the real-based one
        space.extra(ModelingDirector).global_representations[float] = \
            RealBasedSymbolicFloat
        v = RealBasedSymbolicFloat(name + space.uniq(), float)
    return track(name, v)


def fresh(typ, name='fresh'):
    """A new symbolic value of ``typ`` on the current path."""
    from crosshair.core import proxy_for_type
    from crosshair.statespace import context_statespace
    with NoTracing():
        space = context_statespace()
        return proxy_for_type(typ, name + space.uniq())


class _PristineServer:
    """A child forked before the first run: it never executes the scenario
    itself but forks one grandchild per request, so every run it answers
    starts from the state a fresh ddSMT process has (no module-level state
    left behind by earlier runs of the exploration)."""

    def __init__(self, run):
        import os
        import pickle
        r1, w1 = os.pipe()
        r2, w2 = os.pipe()
        self.pid = os.fork()
        if self.pid == 0:
            os.close(w1)
            os.close(r2)
            fin = os.fdopen(r1, 'rb')
            fout = os.fdopen(w2, 'wb')
            while True:
                try:
                    vec = pickle.load(fin)
                except EOFError:
                    os._exit(0)
                rr, ww = os.pipe()
                p = os.fork()
                if p == 0:
                    os.close(rr)
                    try:
                        v, rd = run(vec)
                        res = (v, sorted(rd))
                    except BaseException as e:   # noqa: B902
                        res = (f'__error__ {type(e).__name__}: {e}', [])
                    with os.fdopen(ww, 'wb') as f:
                        pickle.dump(res, f)
                    os._exit(0)
                os.close(ww)
                with os.fdopen(rr, 'rb') as f:
                    data = f.read()
                os.waitpid(p, 0)
                fout.write(len(data).to_bytes(8, 'little') + data)
                fout.flush()
        os.close(r1)
        os.close(w2)
        self.fout = os.fdopen(w1, 'wb')
        self.fin = os.fdopen(r2, 'rb')

    def run(self, vec):
        import pickle
        pickle.dump(list(vec), self.fout)
        self.fout.flush()
        n = int.from_bytes(self.fin.read(8), 'little')
        v, rd = pickle.loads(self.fin.read(n))
        if isinstance(v, str) and v.startswith('__error__'):
            raise RuntimeError(v)
        return v, set(rd)

    def close(self):
        import os
        try:
            self.fout.close()
            self.fin.close()
            os.waitpid(self.pid, 0)
        except Exception:
            pass


def explore_choices(run, nbits, budget_s=60.0, pin=(), samples=2):
    """Exhaustive exploration of boolean choice vectors with z3 as the
    bookkeeper (all-SAT with generalisation to the bits actually read).

    ``run(vec)`` executes the scenario natively with the choice vector
    ``vec`` (list of bools of length ``nbits``) and returns (verdict, read):
    verdict is None (property held), 'skip' (precondition not met) or a
    violation description; ``read`` is the set of vector positions the run
    consulted.  After each run the cube "same values on the positions read"
    is blocked.  When z3 reports unsat, every choice vector agrees with an
    explored run on all positions that run read, hence behaves identically:
    the exploration is complete.
    """
    t0 = time.time()
    bits = [z3.Bool(f'c{i}') for i in range(nbits)]
    s = z3.Solver()
    for i, v in enumerate(pin):
        s.add(bits[i] == bool(v))
    checks = 0
    stime = 0.0
    paths = ok = skipped = 0
    cex = None
    msg = None
    smp = []
    status = 'UNKNOWN'
    # runs of one exploration share a process; ddSMT runs once per process.
    # A violation seen in-process is therefore repeated in a pristine state
    # (forked before the first run); if it does not show there, earlier runs
    # left state behind, and the whole exploration is repeated with every
    # run in a pristine state.
    try:
        server = _PristineServer(run)
    except Exception:
        server = None
    pristine_mode = False
    try:
        return _explore_choices_loop(run, nbits, budget_s, pin, samples, t0,
                                     bits, s, server)
    finally:
        if server is not None:
            server.close()


def _explore_choices_loop(run, nbits, budget_s, pin, samples, t0, bits, s,
                          server):
    checks = 0
    stime = 0.0
    paths = ok = skipped = 0
    cex = None
    msg = None
    smp = []
    status = 'UNKNOWN'
    pristine_mode = False
    restarts = 0
    while True:
        if time.time() - t0 > budget_s:
            break
        tq = time.perf_counter()
        r = s.check()
        stime += time.perf_counter() - tq
        checks += 1
        if r == z3.unsat:
            status = 'CONFIRMED' if ok > 0 else 'VACUOUS'
            break
        if r != z3.sat:
            break
        m = s.model()
        vec = [bool(z3.is_true(m.eval(b, model_completion=True)))
               for b in bits]
        if pristine_mode:
            verdict, read = server.run(vec)
        else:
            verdict, read = run(vec)
            if verdict is not None and verdict != 'skip' \
                    and server is not None:
                v2, read2 = server.run(vec)
                if v2 is None or v2 == 'skip':
                    # state left behind by earlier runs: start again
                    pristine_mode = True
                    restarts += 1
                    s.reset()
                    for i, v in enumerate(pin):
                        s.add(bits[i] == bool(v))
                    paths = ok = skipped = 0
                    smp = []
                    continue
                verdict, read = v2, read2
        paths += 1
        read = sorted(i for i in set(read) | set(range(len(pin)))
                      if i < nbits)
        shown = {str(i): int(vec[i]) for i in read}
        if verdict is None:
            ok += 1
            if len(smp) < samples:
                smp.append({'choices_read': shown})
        elif verdict == 'skip':
            skipped += 1
        else:
            cex = {'bits': [int(x) for x in vec]}
            msg = verdict
            status = 'VIOLATED'
            break
        if not read:
            status = 'CONFIRMED' if ok > 0 else 'VACUOUS'
            break
        s.add(z3.Or([bits[i] != vec[i] for i in read]))
    return {
        'status': status, 'exhausted': status in ('CONFIRMED', 'VACUOUS'),
        'paths': paths, 'paths_ok': ok, 'paths_skipped': skipped,
        'cex': cex,
        'exc': {'type': 'Violation', 'msg': msg} if cex else None,
        'samples': smp, 'solver_checks': checks,
        'solver_seconds': round(stime, 3), 'solver_unknown': 0,
        'wall_s': round(time.time() - t0, 2), 'engine_error': None,
        'engine': 'z3 all-SAT over choice vectors' + (
            ' (every run in a pristine forked state: in-process runs left '
            'state behind)' if pristine_mode else ''),
    }
