"""Tree shapes and builders shared by the nodes.py harnesses (C11-C13)."""


def shapes_up_to(n):
    """All ordered tree shapes with at most n nodes; a shape is a nested
    tuple, a leaf is the marker 'L'."""
    memo = {}

    def forests(k):
        # all ordered forests with exactly k nodes
        if k in memo:
            return memo[k]
        if k == 0:
            res = [()]
        else:
            res = []
            for first in range(1, k + 1):
                for t in trees(first):
                    for rest in forests(k - first):
                        res.append((t,) + rest)
        memo[k] = res
        return res

    def trees(k):
        res = []
        if k == 1:
            res.append('L')
        for f in forests(k - 1):
            res.append(tuple(f))       # inner node with children f
        return res

    out = []
    for k in range(1, n + 1):
        out.extend(trees(k))
    return out


def count_leaves(shape):
    if shape == 'L':
        return 1
    return sum(count_leaves(c) for c in shape)


def count_shape_nodes(shape):
    if shape == 'L':
        return 1
    return 1 + sum(count_shape_nodes(c) for c in shape)


def build(shape, leaves, Node, pos=None):
    """Build a ddsmt Node tree and its list model; ``leaves`` is consumed
    left to right."""
    if pos is None:
        pos = [0]
    if shape == 'L':
        t = leaves[pos[0]]
        pos[0] += 1
        return Node(t), t
    kids = [build(c, leaves, Node, pos) for c in shape]
    return Node(*[k[0] for k in kids]), [k[1] for k in kids]


def paths(shape, prefix=()):
    """All positions (paths) of a shape in pre-order."""
    out = [prefix]
    if shape != 'L':
        for i, c in enumerate(shape):
            out.extend(paths(c, prefix + (i,)))
    return out


def node_at(node, path):
    for i in path:
        node = node.data[i]
    return node


def to_list(node):
    if node.is_leaf():
        return node.data
    return [to_list(c) for c in node.data]


def all_nodes(node):
    out = [node]
    if not node.is_leaf():
        for c in node.data:
            out.extend(all_nodes(c))
    return out


def shape_str(shape):
    if shape == 'L':
        return 'L'
    return '(' + ''.join(shape_str(c) for c in shape) + ')'
