"""Native re-execution of a counterexample: no shims, no tracing.

usage: python -m vlib.replay <cex.json>
prints ``REPRODUCED: <what>`` (exit 1) or ``NOT-REPRODUCED`` (exit 0).
"""
import importlib
import json
import os
import sys

ARGV = list(sys.argv)


def main():
    rec = json.load(open(ARGV[1]))
    # partition lists depend on the tier the counterexample was found in
    os.environ['VERIF_TIER_REPLAY'] = rec.get('tier', 'quick')
    repo = os.environ.get('VERIF_REPO', '/repo')
    sys.path.insert(0, repo)
    sys.argv = ['ddsmt', 'in.smt2', 'out.smt2', 'cmd']
    sys.setrecursionlimit(10000)
    mod = importlib.import_module(f'harness.{rec["property"].lower()}')
    what = mod.replay(rec['partition'], rec['cex'])
    if what:
        print(f'REPRODUCED: {what}'.replace('\n', '\\n')[:1500])
        return 1
    print('NOT-REPRODUCED')
    return 0


if __name__ == '__main__':
    sys.exit(main())
