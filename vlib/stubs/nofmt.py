"""Wrappers that keep symbolic values symbolic across code that formats them
for log messages (f-strings realise symbolic values in CrossHair, which turns
a solver-quantified variable into an endless enumeration).

``Num`` / ``Str`` forward arithmetic, comparison and containment to the
wrapped symbolic value and answer every formatting request with a constant:
log formatting is not the subject of any property.  ``math.ceil``, ``int``,
``math.floor`` and ``round`` - which would realise a symbolic float - are
answered *by contract* with a fresh symbolic integer constrained to the
documented result.
"""



def unwrap(x):
    if isinstance(x, (Num, Str)):
        return x.v
    return x


class Num:
    __slots__ = ('v',)

    def __init__(self, v):
        self.v = unwrap(v)

    def __format__(self, spec):
        return '#'

    def __ch_deep_realize__(self, memo):
        # CrossHair deep-realises every object it formats: stay symbolic
        return self

    def __str__(self):
        return '#'

    __repr__ = __str__

    def __bool__(self):
        return bool(self.v != 0)

    def __add__(self, o):
        return Num(self.v + unwrap(o))

    __radd__ = __add__

    def __sub__(self, o):
        return Num(self.v - unwrap(o))

    def __rsub__(self, o):
        return Num(unwrap(o) - self.v)

    def __mul__(self, o):
        return Num(self.v * unwrap(o))

    __rmul__ = __mul__

    def __truediv__(self, o):
        return Num(self.v / unwrap(o))

    def __neg__(self):
        return Num(-self.v)

    def __eq__(self, o):
        o = unwrap(o)
        if o is None:
            return False
        return self.v == o

    def __ne__(self, o):
        o = unwrap(o)
        if o is None:
            return True
        return self.v != o

    def __lt__(self, o):
        return self.v < unwrap(o)

    def __le__(self, o):
        return self.v <= unwrap(o)

    def __gt__(self, o):
        return self.v > unwrap(o)

    def __ge__(self, o):
        return self.v >= unwrap(o)

    __hash__ = None

    # integer conversions: exact on the real-number model (z3 ToInt)
    def __trunc__(self):
        return self.v.__int__()

    __int__ = __trunc__

    def __floor__(self):
        k = self.v.__int__()
        if k > self.v:
            return k - 1
        return k

    def __ceil__(self):
        k = self.v.__int__()
        if k < self.v:
            return k + 1
        return k

    def __round__(self, nd=None):
        if nd is None:
            return round(self.v)
        return Num(round(self.v, nd))


class Str:
    __slots__ = ('v',)

    def __init__(self, v):
        self.v = unwrap(v)

    def __format__(self, spec):
        return '#'

    def __ch_deep_realize__(self, memo):
        # CrossHair deep-realises every object it formats: stay symbolic
        return self

    def __str__(self):
        return '#'

    __repr__ = __str__

    def __bool__(self):
        return bool(len(self.v) > 0)

    def __len__(self):
        return len(self.v)

    def __contains__(self, o):
        return bool(unwrap(o) in self.v)

    def __eq__(self, o):
        o = unwrap(o)
        if o is None:
            return False
        return self.v == o

    def __ne__(self, o):
        o = unwrap(o)
        if o is None:
            return True
        return self.v != o

    __hash__ = None

    def decode(self):
        return self


class ContractMath:
    """Stand-in for the ``math`` module inside a module under test: CrossHair
    realises the arguments of math.ceil/floor/trunc; here they are answered by
    contract for wrapped symbolic numbers."""

    def __getattr__(self, name):
        import math
        return getattr(math, name)

    @staticmethod
    def ceil(x):
        if isinstance(x, Num):
            return x.__ceil__()
        import math
        return math.ceil(x)

    @staticmethod
    def floor(x):
        if isinstance(x, Num):
            return x.__floor__()
        import math
        return math.floor(x)

    @staticmethod
    def trunc(x):
        if isinstance(x, Num):
            return x.__trunc__()
        import math
        return math.trunc(x)
