"""Nondeterministic environment for the strategy harnesses (C01, C02, C05,
C18, C06): decision source, oracle for checker.check_exprs, fake
multiprocessing pool with an explicit scheduler, event flag, recorders.

The code under test (strategy_ddmin / strategy_hierarchical / cli) runs
*untraced* at native speed; every nondeterministic choice is a fresh symbolic
value decided under tracing, so that CrossHair's path tree (with z3 checking
feasibility) enumerates the choice vectors exhaustively.  Choices beyond the
stated budgets take a default (verdict: reject; schedule: lazy).
"""
import collections


class Decider:
    """Source of nondeterministic bits backed by a choice vector.

    ``replay`` is the vector (list of 0/1); bits beyond its length, or
    beyond ``budget`` sequential draws, take the default.  ``reserved``
    leading positions are addressed directly with ``bit_at`` (e.g. one bit
    per candidate class), sequential draws with ``bit`` use the positions
    after them.  ``read`` records every position consulted: two vectors that
    agree on these positions lead to the same run."""

    def __init__(self, budget, replay=None, reserved=0):
        self.budget = budget
        self.replay = list(replay) if replay is not None else []
        self.reserved = reserved
        self.seq = 0
        self.log = []
        self.read = set()
        self.quiet = False      # True: sequential draws return the default

    def _get(self, i, default):
        self.read.add(i)
        if i < len(self.replay):
            return bool(self.replay[i])
        return default

    def bit_at(self, k, default=False):
        assert k < self.reserved
        return self._get(k, default)

    def bit(self, default=False):
        if self.quiet or self.seq >= self.budget:
            return default
        v = self._get(self.reserved + self.seq, default)
        self.seq += 1
        self.log.append(v)
        return v

    def choice(self, n):
        """0..n-1 (unary over bits; 0 is the default)."""
        for k in range(n - 1):
            if not self.bit():
                return k
        return n - 1


def tokens(exprs):
    out = []
    stack = list(reversed(exprs))
    while stack:
        e = stack.pop()
        if e is None:
            out.append(')')
        elif e.is_leaf():
            out.append(e.data)
        else:
            out.append('(')
            stack.append(None)
            stack.extend(reversed(e.data))
    return ' '.join(out)


class Oracle:
    """Deterministic command whose behaviour depends on the token sequence
    only: the k-th distinct candidate gets verdict bit k; more than
    ``nbits`` distinct candidates are rejected."""

    def __init__(self, decider, nbits, always_accept=()):
        self.d = decider
        self.nbits = nbits
        self.memo = {}
        self.used = 0
        self.calls = []            # (tokens, verdict) in call order
        for t in always_accept:
            self.memo[t] = True

    def verdict(self, toks):
        if toks not in self.memo:
            if self.used < self.nbits:
                self.used += 1
                self.memo[toks] = self.d.bit()
            else:
                self.memo[toks] = False
        return self.memo[toks]

    def check_exprs(self, exprs):
        t = tokens(exprs)
        v = self.verdict(t)
        self.calls.append((t, v))
        return v


class RequiredTokensOracle(Oracle):
    """The classic delta-debugging oracle: the command fails in the same way
    iff certain pieces of the input are still present.  For each of the key
    tokens one choice bit says whether it is required; a candidate is
    accepted iff all required tokens occur in it.  Deterministic on every
    candidate, no limit on the number of candidates."""

    def __init__(self, decider, keys, original):
        Oracle.__init__(self, decider, 0)
        present = original.split(' ')
        self.required = [k for k in keys if k in present and decider.bit()]

    def verdict(self, toks):
        if toks not in self.memo:
            ts = toks.split(' ')
            self.memo[toks] = all(k in ts for k in self.required)
        return self.memo[toks]


class SameShapeOracle(RequiredTokensOracle):
    """Required tokens as above, and the candidate must have exactly as many
    tokens as the original: a command that only tolerates leaf-for-leaf
    replacements (the accepted inputs then all have the same size - and the
    same pickled length - which is what stale-cache bugs need)."""

    def __init__(self, decider, keys, original):
        RequiredTokensOracle.__init__(self, decider, keys, original)
        self.n = len(original.split(' '))

    def verdict(self, toks):
        if toks not in self.memo:
            ts = toks.split(' ')
            self.memo[toks] = (len(ts) == self.n
                               and all(k in ts for k in self.required))
        return self.memo[toks]


class NoShrinkOracle(RequiredTokensOracle):
    """Required tokens as above, and the candidate must have at least as many
    tokens as the original: the command that only tolerates rewrites which
    keep or enlarge the input (inlining, substitution) - the adversary for
    simplifications that can be repeated for ever."""

    def __init__(self, decider, keys, original):
        RequiredTokensOracle.__init__(self, decider, keys, original)
        self.n = len(original.split(' '))

    def verdict(self, toks):
        if toks not in self.memo:
            ts = toks.split(' ')
            self.memo[toks] = (len(ts) >= self.n
                               and all(k in ts for k in self.required))
        return self.memo[toks]


class ConsistentNumeralsOracle(RequiredTokensOracle):
    """Required tokens as above, and all numerals of the candidate must be
    one and the same number: replacing a single occurrence of a constant
    loses the behaviour, replacing all occurrences at once keeps it (the
    situation global simplifications exist for)."""

    def verdict(self, toks):
        if toks not in self.memo:
            ts = toks.split(' ')
            nums = {t for t in ts if t.isdigit()}
            self.memo[toks] = (len(nums) <= 1
                               and all(k in ts for k in self.required))
        return self.memo[toks]


class HashClassOracle(Oracle):
    """Candidates are partitioned into ``nbits`` classes by a fixed hash of
    their token sequence; one choice bit per class is the verdict of all its
    members.  A deterministic command on *every* candidate (no budget on the
    number of candidates), arbitrary and in particular non-monotone."""

    def __init__(self, decider, nbits, always_accept=(), salt=0):
        Oracle.__init__(self, decider, nbits, always_accept)
        self.cls = {}
        self.salt = salt

    def verdict(self, toks):
        if toks not in self.memo:
            import zlib
            k = zlib.crc32((str(self.salt) + toks).encode()) % self.nbits
            self.memo[toks] = self.d.bit_at(k)
        return self.memo[toks]


class Event:
    def __init__(self):
        self.flag = False

    def set(self):
        self.flag = True

    def clear(self):
        self.flag = False

    def is_set(self):
        return self.flag


class FakePool:
    """multiprocessing.Pool(jobs) with an explicit scheduler.

    imap_unordered(f, iterable) keeps: the task feeder (pulls tasks from the
    iterable), the queue of pulled tasks, and the queue of finished results.
    Whenever the consumer asks for the next result the scheduler performs
    steps until a result is delivered; each step is one of
      pull     the feeder takes the next task from the iterable
      exec k   one of the first ``jobs`` queued tasks is executed (f is
               called; it reads the abort flag at that moment)
      deliver  the oldest finished result is handed to the consumer
    chosen by the Decider (default: the lazy schedule pull-exec-deliver).
    With jobs == 1 tasks are executed in submission order.
    """

    def __init__(self, jobs, decider, prefetch=4, on_step=None):
        self.jobs = jobs
        self.d = decider
        self.prefetch = prefetch
        self.trace = []
        self.on_step = on_step      # called before every scheduler step

    def __enter__(self):
        return self

    def __exit__(self, *a):
        return False

    def imap_unordered(self, f, iterable):
        it = iter(iterable)
        queue = collections.deque()
        results = collections.deque()
        state = {'exhausted': False}

        def pull():
            try:
                queue.append(next(it))
                self.trace.append('pull')
            except StopIteration:
                state['exhausted'] = True

        while True:
            # enabled steps
            opts = []
            if results:
                opts.append('deliver')
            if queue:
                opts.append('exec')
            if not state['exhausted'] and len(queue) < self.prefetch:
                opts.append('pull')
            if not opts:
                return
            # default (lazy) order: deliver > exec > pull
            step = opts[self.d.choice(len(opts))]
            if self.on_step is not None:
                self.on_step(step)
            if step == 'pull':
                pull()
            elif step == 'exec':
                k = 0
                if self.jobs > 1 and len(queue) > 1:
                    k = self.d.choice(min(self.jobs, len(queue)))
                task = queue[k]
                del queue[k]
                self.trace.append(f'exec{k}')
                results.append(f(task))
            else:
                self.trace.append('deliver')
                yield results.popleft()


class FakeMP:
    """Stand-in for the ``multiprocessing`` module inside a strategy module."""

    def __init__(self, decider, prefetch=4):
        self.d = decider
        self.prefetch = prefetch
        self.pools = []

    def Pool(self, jobs=None):
        p = FakePool(jobs or 1, self.d, self.prefetch,
                     getattr(self, 'on_step', None))
        self.pools.append(p)
        return p

    def Manager(self):
        return self

    def Event(self):
        return Event()

    def parent_process(self):
        return None
