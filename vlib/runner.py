"""Driver behind ``/verif/vcheck``: runs the partitions of one property in
parallel OS processes, replays every counterexample on the unshimmed real
code, consults KNOWN_FINDINGS.jsonl, writes evidence/<ID>.json.

Exit codes: 0 property held on everything explored (KNOWN-FINDING lines
possible), 1 replayed violation not listed as known, 2 harness trouble.
"""
import concurrent.futures
import hashlib
import importlib
import json
import os
import resource
import subprocess
import sys
import time

VERIF = os.path.dirname(os.path.dirname(os.path.abspath(__file__)))
PY = os.path.join(VERIF, '.venv', 'bin', 'python')
REPO = os.environ.get('VERIF_REPO', '/repo')
OUT = os.path.join(VERIF, 'replay_out')


def _limits():
    gb = int(os.environ.get('VERIF_MEM_GB', '8'))
    resource.setrlimit(resource.RLIMIT_AS, (gb << 30, gb << 30))
    os.setsid()


def _env():
    env = dict(os.environ)
    env['PYTHONPATH'] = VERIF
    env['VERIF_REPO'] = REPO
    env['PYTHONHASHSEED'] = env.get('VERIF_HASHSEED', '0')
    env['PYTHONDONTWRITEBYTECODE'] = '1'
    return env


def run_partition(pid, tier, part):
    """Run one partition in a fresh interpreter; returns its result dict."""
    os.makedirs(OUT, exist_ok=True)
    resfile = os.path.join(OUT, f'{pid}.{part["name"]}.result.json')
    if os.path.exists(resfile):
        os.unlink(resfile)
    hard = part.get('budget_s', 60) * 1.3 + 60
    t0 = time.time()
    cmd = [PY, '-m', 'vlib.worker', pid, tier, part['name'], resfile]
    try:
        p = subprocess.run(cmd, cwd=VERIF, env=_env(), preexec_fn=_limits,
                           timeout=hard, stdout=subprocess.PIPE,
                           stderr=subprocess.PIPE, text=True)
        rc, err = p.returncode, p.stderr[-3000:]
    except subprocess.TimeoutExpired:
        rc, err = -9, f'hard timeout {hard:.0f}s'
    res = None
    if os.path.exists(resfile):
        try:
            res = json.load(open(resfile))
        except Exception:
            res = None
    if res is None:
        res = {'status': 'UNKNOWN', 'engine_error': f'worker rc={rc}: {err}',
               'paths': 0, 'paths_ok': 0, 'solver_checks': 0,
               'solver_seconds': 0.0, 'samples': [], 'cex': None}
    res['name'] = part['name']
    res['proc_wall_s'] = round(time.time() - t0, 2)
    return res


_TIER = ['quick']


def replay(pid, part_name, cex, tag):
    """Re-execute a counterexample natively (no shims, no tracing).

    Returns (reproduced: bool|None, text, path)."""
    os.makedirs(OUT, exist_ok=True)
    path = os.path.join(OUT, f'{pid}-{tag}.json')
    with open(path, 'w') as f:
        json.dump({'property': pid, 'partition': part_name, 'cex': cex,
                   'tier': _TIER[0]}, f, indent=1)
    r = replay_file(path)
    return r[0], r[1], path


def replay_file(path, timeout=120):
    try:
        p = subprocess.run([PY, '-m', 'vlib.replay', path], cwd=VERIF,
                           env=_env(), timeout=timeout, preexec_fn=_limits,
                           stdout=subprocess.PIPE, stderr=subprocess.PIPE,
                           text=True)
    except subprocess.TimeoutExpired:
        return None, f'replay timed out after {timeout}s'
    out = p.stdout.strip().splitlines()
    last = out[-1] if out else ''
    if p.returncode == 1 and last.startswith('REPRODUCED'):
        return True, last
    if p.returncode == 0 and last.startswith('NOT-REPRODUCED'):
        return False, last
    return None, f'replay rc={p.returncode}: {p.stdout[-500:]} {p.stderr[-1500:]}'


def load_known(pid):
    path = os.path.join(VERIF, 'KNOWN_FINDINGS.jsonl')
    res = []
    if os.path.exists(path):
        for line in open(path):
            line = line.strip()
            if not line or line.startswith('#') or line.startswith('fixed:'):
                continue
            rec = json.loads(line)
            if rec.get('property') == pid:
                res.append(rec)
    return res


def source_digest(functions):
    """sha256 over the current source of the encoded repo functions."""
    code = ('import sys,inspect,hashlib,importlib,json\n'
            f'sys.path.insert(0,{REPO!r})\n'
            "sys.argv=['ddsmt','a','b','c']\n"
            'out={}\n'
            f'for q in {list(functions)!r}:\n'
            '  try:\n'
            "    m,_,a=q.partition(':')\n"
            '    o=importlib.import_module(m)\n'
            "    for part in a.split('.'):\n"
            '      if part: o=getattr(o,part)\n'
            '    out[q]=hashlib.sha256(inspect.getsource(o).encode()).hexdigest()[:16]\n'
            '  except Exception as e:\n'
            "    out[q]='unavailable: '+type(e).__name__\n"
            'print(json.dumps(out))\n')
    try:
        p = subprocess.run([PY, '-c', code], env=_env(), cwd=VERIF,
                           stdout=subprocess.PIPE, stderr=subprocess.PIPE,
                           text=True, timeout=60)
        return json.loads(p.stdout.strip().splitlines()[-1])
    except Exception as e:
        return {'error': str(e)}


def main(argv):
    if len(argv) >= 2 and argv[0] == '--replay':
        ok, text = replay_file(argv[1])
        print(text)
        return 1 if ok else (0 if ok is False else 2)
    pid = argv[0]
    tier = os.environ.get('VERIF_TIER', 'quick')
    if '--tier' in argv:
        tier = argv[argv.index('--tier') + 1]
    only = None
    if '--only' in argv:
        only = argv[argv.index('--only') + 1]
    seed = int(os.environ.get('VERIF_SEED', '0') or 0)
    _TIER[0] = tier
    sys.path.insert(0, VERIF)
    os.environ.setdefault('VERIF_REPO', REPO)
    t0 = time.time()
    # harness modules may consult the repository when listing partitions
    sys.path.insert(0, REPO)
    sys.argv = ['ddsmt', 'in.smt2', 'out.smt2', 'cmd']
    mod = importlib.import_module(f'harness.{pid.lower()}')
    parts = mod.partitions(tier)
    if only:
        parts = [p for p in parts if only in p['name']]
    known = load_known(pid)
    jobs = int(os.environ.get('VERIF_JOBS', str(os.cpu_count() or 4)))

    results = []
    violations = []
    spurious = []
    stop = False
    with concurrent.futures.ThreadPoolExecutor(max_workers=jobs) as ex:
        futs = {}
        pending = list(parts)
        active = set()

        def launch():
            while pending and len(active) < jobs and not stop:
                part = pending.pop(0)
                meta = {k: v for k, v in part.items() if k != 'fn'}
                f = ex.submit(run_partition, pid, tier, meta)
                futs[f] = part
                active.add(f)

        launch()
        while active:
            done, _ = concurrent.futures.wait(
                active, return_when=concurrent.futures.FIRST_COMPLETED)
            for f in done:
                active.discard(f)
                res = f.result()
                results.append(res)
                if res['status'] == 'VIOLATED':
                    ok, text, path = replay(pid, res['name'], res['cex'],
                                            f'cex-{res["name"]}')
                    res['replay'] = {'reproduced': ok, 'text': text,
                                     'path': path}
                    if ok:
                        violations.append(res)
                        stop = True
                    else:
                        spurious.append(res)
            launch()

    # known findings: replay each listed witness on the current tree
    known_out = []
    for k in known:
        _TIER[0] = k['witness'].get('tier', tier)   # bounds the witness needs
        ok, text, path = replay(pid, k['witness']['partition'],
                                k['witness']['cex'], f'known-{k["id"]}')
        _TIER[0] = tier
        known_out.append({'id': k['id'], 'still_fails': ok, 'text': text})
        if ok:
            print(f'KNOWN-FINDING: property={pid} {k["id"]}: {k["what"]}')
        else:
            print(f'note: known finding {k["id"]} no longer reproduces '
                  f'({text}) - stale entry')

    nconf = sum(1 for r in results if r['status'] == 'CONFIRMED')
    nunk = [r['name'] for r in results
            if r['status'] in ('UNKNOWN', 'VACUOUS')]
    skipped = len(parts) - len(results)
    wall = time.time() - t0
    samples = []
    for r in results:
        for s in r.get('samples', [])[:2]:
            if len(samples) < 12:
                samples.append({'partition': r['name'], 'inputs': s})
    for r in violations + spurious:
        samples.append({'partition': r['name'], 'counterexample': r['cex'],
                        'replay': r.get('replay')})
    paths = sum(r.get('paths', 0) for r in results)
    paths_ok = sum(r.get('paths_ok', 0) for r in results)
    funcs = list(getattr(mod, 'FUNCTIONS', []))
    ev = {
        'property_id': pid,
        'tier': tier,
        'seed': seed,
        'level': getattr(mod, 'LEVEL', 'model_checking'),
        'coverage': {
            'evaluations': max(paths, 1),
            'distinct_nontrivial': paths_ok,
            'rule': getattr(mod, 'RULE', '') or (
                'one evaluation = one feasible execution path of the harness '
                'explored by CrossHair/z3 (each path stands for every input '
                'satisfying its path condition); distinct = paths differ in at '
                'least one solver-decided branch; non-trivial = the path met '
                'all preconditions and reached the final assertion'),
            'samples': samples or [{'note': 'no sample recorded'}],
            'exhaustive': bool(results) and nconf == len(parts),
            'partitions_total': len(parts),
            'partitions_confirmed': nconf,
            'partitions_inconclusive': nunk,
            'partitions_not_run': skipped,
            'partitions': [
                {k: r.get(k) for k in (
                    'name', 'status', 'paths', 'paths_ok', 'paths_skipped',
                    'solver_checks', 'solver_seconds', 'solver_unknown',
                    'wall_s', 'engine_error', 'bounds', 'queries')}
                for r in results],
            'solver_queries': sum(r.get('solver_checks', 0) for r in results),
            'solver_seconds': round(sum(r.get('solver_seconds', 0.0)
                                        for r in results), 2),
            'functions_encoded': source_digest(funcs),
            'bounds': mod.bounds(tier) if hasattr(mod, 'bounds') else {},
            'outside_bounds': getattr(mod, 'OUTSIDE', []),
            'known_findings': known_out,
            'spurious_counterexamples': len(spurious),
            'repo': REPO,
            'explanation': getattr(mod, 'EXPLANATION', ''),
        },
        'assumptions': list(getattr(mod, 'ASSUMPTIONS', [])),
        'wall_s': round(wall, 2),
        'violations': len(violations),
    }
    extra = getattr(mod, 'extra_coverage', None)
    if extra:
        ev['coverage'].update(extra(results))
    os.makedirs(os.path.join(VERIF, 'evidence'), exist_ok=True)
    evpath = os.environ.get('VERIF_EVIDENCE',
                            os.path.join(VERIF, 'evidence', f'{pid}.json'))
    with open(evpath, 'w') as f:
        json.dump(ev, f, indent=1, sort_keys=True)

    print(f'{pid} [{tier}] partitions={len(parts)} confirmed={nconf} '
          f'inconclusive={len(nunk)} violations={len(violations)} '
          f'spurious={len(spurious)} paths={paths} '
          f'solver_queries={ev["coverage"]["solver_queries"]} '
          f'wall={wall:.1f}s')
    for n in nunk:
        r = [x for x in results if x['name'] == n][0]
        print(f'  INCONCLUSIVE {n}: {r.get("engine_error") or r["status"]}'
              [:300])
    for r in spurious:
        print(f'  SPURIOUS (not reproduced natively, not reported) '
              f'{r["name"]}: {json.dumps(r["cex"])[:300]} :: '
              f'{r["replay"]["text"][:300]}')
    for r in violations:
        print(f'  counterexample {r["name"]}: {json.dumps(r["cex"])[:400]} '
              f':: {r["replay"]["text"][:400]}')
        print(f'VIOLATION property={pid} replay={r["replay"]["path"]}')
    if violations:
        return 1
    if spurious:
        return 2
    if not results or (nconf == 0 and not known_out):
        print('  no partition confirmed: harness trouble')
        return 2
    return 0


if __name__ == '__main__':
    sys.exit(main(sys.argv[1:]))
