"""Runs one partition of one property (fresh interpreter per partition)."""
import importlib
import json
import os
import sys
import time

ARGV = list(sys.argv)


def main():
    pid, tier, name, resfile = ARGV[1:5]
    sys.setrecursionlimit(10000)
    from vlib import shims
    shims.import_repo()
    mod = importlib.import_module(f'harness.{pid.lower()}')
    parts = [p for p in mod.partitions(tier) if p['name'] == name]
    assert len(parts) == 1, (name, len(parts))
    part = parts[0]
    t0 = time.time()
    if part.get('kind', 'E1') == 'E1':
        from vlib.engine import explore
        if 'setup' in part:
            part['setup']()
        res = explore(part['fn'], budget_s=part.get('budget_s', 60),
                      per_path_timeout=part.get('per_path_timeout', 30),
                      samples=part.get('samples', 2),
                      on_reset=part.get('reset'))
    else:
        res = part['run']()
    res['bounds'] = part.get('bounds')
    res.setdefault('wall_s', round(time.time() - t0, 2))
    with open(resfile, 'w') as f:
        json.dump(res, f)


if __name__ == '__main__':
    main()
