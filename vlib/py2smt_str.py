"""Symbolic evaluation (Python AST -> z3 strings) of the *name construction*
inside a mutator method taken from the current source in /repo.

The evaluator walks the body of ``global_mutations`` path by path.  The
command/term the mutator works on is abstracted to "a node whose child 1 is a
leaf with an arbitrary token text" (a z3 String); everything the evaluator
does not understand about the *environment* (sort tables, widths, loop
variables) becomes an unconstrained value, every condition over such values
a fresh Boolean - an over-approximation of the paths.  Whenever the code
builds ``Node('declare-const', <name>, ...)`` the pair (path condition,
<name> as z3 string term) is recorded.

String operations understood: ``.data``, ``str()``/format of a leaf,
indexing ``[0]``/``[-1]``, slices ``[1:]``/``[1:-1]``/``[:-1]``, ``+``,
``'..{}..'.format(x)``, f-strings, comparisons ``==``/``!=`` with string
constants, ``and``/``or``/``not``; helper predicates of ddsmt.smtlib whose
body is a single ``return <expr>`` are inlined from *their* current source.
Anything else that would have to produce a *string* raises ``Unsupported``
(the partition is then inconclusive, never a pass).
"""
import ast
import inspect
import textwrap

import z3


class Unsupported(Exception):
    pass


class Leaf:
    """A leaf Node whose text is the z3 string ``s``."""

    def __init__(self, s):
        self.s = s


class Opaque:
    """A value of the environment the evaluator knows nothing about."""

    def __init__(self, what=''):
        self.what = what


class NodeId:
    """``node.id``: a non-negative integer, rendered as decimal digits."""

    def __init__(self, digits):
        self.digits = digits


class Match:
    """Result of re.match(pattern, s): ``ok`` is the z3 Bool 'matched'."""

    def __init__(self, ok):
        self.ok = ok


def regex_to_z3(pattern):
    """Python regular expression (subset: literals, classes with ranges,
    negation and \\s \\d \\w, repetition, groups without captures used,
    alternation) to a z3 regular expression over BMP characters."""
    try:
        import re._parser as sre_parse
        import re._constants as C
    except ImportError:                      # Python < 3.11
        import sre_parse
        import sre_constants as C
    top = chr(0xFFFF)
    anyc = z3.Range(chr(0), top)

    def cat(name):
        if name == C.CATEGORY_SPACE:
            return [(9, 13), (32, 32), (28, 31), (0x85, 0x85), (0xa0, 0xa0)]
        if name == C.CATEGORY_DIGIT:
            return [(48, 57)]
        if name == C.CATEGORY_WORD:
            return [(48, 57), (65, 90), (95, 95), (97, 122)]
        raise Unsupported(f'category {name}')

    def ranges_to_re(rs):
        parts = [z3.Range(chr(a), chr(b)) if a != b else z3.Re(chr(a))
                 for a, b in rs]
        if not parts:
            return z3.Empty(z3.ReSort(z3.StringSort()))
        return parts[0] if len(parts) == 1 else z3.Union(*parts)

    def negate(rs):
        rs = sorted(rs)
        out = []
        cur = 0
        for a, b in rs:
            if a > cur:
                out.append((cur, a - 1))
            cur = max(cur, b + 1)
        if cur <= 0xFFFF:
            out.append((cur, 0xFFFF))
        return out

    def seq(items):
        parts = [one(op, av) for op, av in items]
        if not parts:
            return z3.Re('')
        return parts[0] if len(parts) == 1 else z3.Concat(*parts)

    def one(op, av):
        if op == C.LITERAL:
            return z3.Re(chr(av))
        if op == C.NOT_LITERAL:
            return ranges_to_re(negate([(av, av)]))
        if op == C.ANY:
            return ranges_to_re(negate([(10, 10)]))
        if op == C.IN:
            neg = False
            rs = []
            for o, a in av:
                if o == C.NEGATE:
                    neg = True
                elif o == C.LITERAL:
                    rs.append((a, a))
                elif o == C.RANGE:
                    rs.append((a[0], a[1]))
                elif o == C.CATEGORY:
                    rs.extend(cat(a))
                else:
                    raise Unsupported(f'class item {o}')
            return ranges_to_re(negate(rs) if neg else rs)
        if op in (C.MAX_REPEAT, C.MIN_REPEAT):
            lo, hi, sub = av
            r = seq(list(sub))
            if hi == C.MAXREPEAT:
                if lo == 0:
                    return z3.Star(r)
                if lo == 1:
                    return z3.Plus(r)
                return z3.Concat(*([r] * lo + [z3.Star(r)]))
            return z3.Loop(r, lo, hi)
        if op == C.SUBPATTERN:
            return seq(list(av[3]))
        if op == C.BRANCH:
            alts = [seq(list(x)) for x in av[1]]
            return z3.Union(*alts) if len(alts) > 1 else alts[0]
        raise Unsupported(f'regex construct {op}')

    return seq(list(sre_parse.parse(pattern))), anyc


class Cmd:
    """The node handed to the mutator: children by index."""

    def __init__(self, children, ident=None):
        self.children = children
        self.ident = ident


_COUNTER = [0]


def fresh_bool(tag):
    _COUNTER[0] += 1
    return z3.Bool(f'env_{tag}_{_COUNTER[0]}')


def as_str(v):
    if isinstance(v, Leaf):
        return v.s
    if isinstance(v, NodeId):
        return v.digits
    if isinstance(v, str):
        return z3.StringVal(v)
    if z3.is_expr(v) and v.sort() == z3.StringSort():
        return v
    raise Unsupported(f'string value of {type(v).__name__}')


def char_at(s, k):
    if k >= 0:
        return z3.SubString(s, k, 1)
    return z3.SubString(s, z3.Length(s) + k, 1)


class Evaluator:
    def __init__(self, helpers_module):
        self.helpers = helpers_module
        self.records = []          # declared names: (path condition, term)
        self.replacements = []     # replacement leaves built from strings
        self.depth = 0

    # ------------------------------------------------------------ values
    def truth(self, v, tag='cond'):
        if isinstance(v, bool):
            return z3.BoolVal(v)
        if z3.is_expr(v) and z3.is_bool(v):
            return v
        if isinstance(v, Match):
            return v.ok
        if isinstance(v, Opaque) or v is None:
            return fresh_bool(tag)
        if isinstance(v, (Leaf, Cmd, NodeId)):
            return z3.BoolVal(True)
        if z3.is_expr(v) and v.sort() == z3.StringSort():
            return z3.Length(v) > 0
        if isinstance(v, (list, tuple)):
            return z3.BoolVal(len(v) > 0)
        raise Unsupported(f'truth of {type(v).__name__}')

    def expr(self, e, env, pc):  # noqa: C901
        if isinstance(e, ast.Constant):
            return e.value
        if isinstance(e, ast.Name):
            if e.id in env:
                return env[e.id]
            return Opaque(e.id)
        if isinstance(e, ast.Attribute):
            base = self.expr(e.value, env, pc)
            if isinstance(base, Leaf) and e.attr == 'data':
                return base.s
            if isinstance(base, Leaf) and e.attr == 'id':
                return Opaque('id')
            if isinstance(base, Cmd) and e.attr == 'id':
                return env.get('__node_id__', Opaque('id'))
            return Opaque(e.attr)
        if isinstance(e, ast.Subscript):
            base = self.expr(e.value, env, pc)
            sl = e.slice
            if isinstance(base, Cmd):
                if isinstance(sl, ast.Constant) and isinstance(sl.value, int) \
                        and 0 <= sl.value < len(base.children):
                    return base.children[sl.value]
                return Opaque('child')
            if isinstance(base, (Leaf, str)) or (
                    z3.is_expr(base) and base.sort() == z3.StringSort()):
                s = as_str(base)
                if isinstance(sl, ast.Constant) and isinstance(sl.value, int):
                    return char_at(s, sl.value)
                if isinstance(sl, ast.UnaryOp) and isinstance(sl.op, ast.USub) \
                        and isinstance(sl.operand, ast.Constant):
                    return char_at(s, -sl.operand.value)
                if isinstance(sl, ast.Slice) and sl.step is None:
                    lo = self._int(sl.lower, 0)
                    hi = self._int(sl.upper, None)
                    if lo is None or lo < 0:
                        raise Unsupported('slice lower bound')
                    if hi is None:
                        return z3.SubString(s, lo, z3.Length(s) - lo)
                    if hi < 0:
                        n = z3.Length(s) + hi - lo
                        return z3.If(n > 0, z3.SubString(s, lo, n),
                                     z3.StringVal(''))
                    return z3.SubString(s, lo, hi - lo)
                raise Unsupported('subscript of a string')
            return Opaque('subscript')
        if isinstance(e, ast.JoinedStr):
            parts = []
            for v in e.values:
                if isinstance(v, ast.Constant):
                    parts.append(z3.StringVal(v.value))
                elif isinstance(v, ast.FormattedValue) and \
                        v.format_spec is None and v.conversion == -1:
                    parts.append(as_str(self.expr(v.value, env, pc)))
                else:
                    raise Unsupported('format specification')
            return self._concat(parts)
        if isinstance(e, ast.BinOp) and isinstance(e.op, ast.Add):
            a = self.expr(e.left, env, pc)
            b = self.expr(e.right, env, pc)
            if isinstance(a, Opaque) or isinstance(b, Opaque):
                return Opaque('sum')
            return self._concat([as_str(a), as_str(b)])
        if isinstance(e, ast.BinOp):
            return Opaque('arith')
        if isinstance(e, ast.UnaryOp) and isinstance(e.op, ast.Not):
            return z3.Not(self.truth(self.expr(e.operand, env, pc)))
        if isinstance(e, ast.UnaryOp):
            return Opaque('unary')
        if isinstance(e, ast.BoolOp):
            vals = [self.truth(self.expr(v, env, pc)) for v in e.values]
            return z3.And(*vals) if isinstance(e.op, ast.And) \
                else z3.Or(*vals)
        if isinstance(e, ast.Compare) and len(e.ops) > 1:
            for c in [e.left] + list(e.comparators):
                self.expr(c, env, pc)
            return fresh_bool('cmp')
        if isinstance(e, ast.Compare) and len(e.ops) == 1:
            a = self.expr(e.left, env, pc)
            b = self.expr(e.comparators[0], env, pc)
            op = e.ops[0]
            stringy = lambda v: isinstance(v, (Leaf, str)) or (  # noqa: E731
                z3.is_expr(v) and v.sort() == z3.StringSort())
            if isinstance(a, Match) and b is None and \
                    isinstance(op, (ast.Is, ast.IsNot, ast.Eq, ast.NotEq)):
                return z3.Not(a.ok) if isinstance(op, (ast.Is, ast.Eq)) \
                    else a.ok
            if stringy(a) and stringy(b) and isinstance(op, (ast.Eq,
                                                             ast.NotEq)):
                r = as_str(a) == as_str(b)
                return r if isinstance(op, ast.Eq) else z3.Not(r)
            return fresh_bool('cmp')
        if isinstance(e, ast.Call):
            return self.call(e, env, pc)
        if isinstance(e, (ast.List, ast.Tuple)):
            return [self.expr(x, env, pc) for x in e.elts]
        if isinstance(e, (ast.Yield, ast.YieldFrom)):
            if e.value is not None:
                self.expr(e.value, env, pc)
            return None
        if isinstance(e, ast.Dict):
            return {'__dict__': [self.expr(v, env, pc) for v in e.values]}
        if isinstance(e, (ast.ListComp, ast.GeneratorExp, ast.Lambda,
                          ast.IfExp, ast.Set, ast.Starred)):
            return Opaque('compound')
        raise Unsupported(ast.dump(e)[:80])

    @staticmethod
    def _int(node, default):
        if node is None:
            return default
        if isinstance(node, ast.Constant) and isinstance(node.value, int):
            return node.value
        if isinstance(node, ast.UnaryOp) and isinstance(node.op, ast.USub) \
                and isinstance(node.operand, ast.Constant):
            return -node.operand.value
        raise Unsupported('slice bound')

    @staticmethod
    def _concat(parts):
        if len(parts) == 1:
            return parts[0]
        return z3.Concat(*parts)

    def call(self, e, env, pc):  # noqa: C901
        f = e.func
        # '...{}...'.format(x)
        if isinstance(f, ast.Attribute) and f.attr == 'format' and \
                isinstance(f.value, ast.Constant) and \
                isinstance(f.value.value, str):
            tmpl = f.value.value
            pieces = tmpl.split('{}')
            if len(pieces) != len(e.args) + 1 or '{' in ''.join(pieces):
                raise Unsupported('format template')
            parts = []
            for k, p in enumerate(pieces):
                if p:
                    parts.append(z3.StringVal(p))
                if k < len(e.args):
                    parts.append(as_str(self.expr(e.args[k], env, pc)))
            return self._concat(parts)
        if isinstance(f, ast.Attribute) and isinstance(f.value, ast.Name) \
                and f.value.id == 're' and f.attr in ('match', 'fullmatch') \
                and len(e.args) == 2:
            pat = self.expr(e.args[0], env, pc)
            subj = self.expr(e.args[1], env, pc)
            if not isinstance(pat, str):
                raise Unsupported('regular expression is not a constant')
            rx, anyc = regex_to_z3(pat)
            if f.attr == 'match':
                rx = z3.Concat(rx, z3.Star(anyc))
            return Match(z3.InRe(as_str(subj), rx))
        if isinstance(f, ast.Attribute):
            base = self.expr(f.value, env, pc)
            if f.attr == 'is_leaf':
                if isinstance(base, Leaf):
                    return True
                if isinstance(base, Cmd):
                    return False
                return fresh_bool('is_leaf')
            if f.attr in ('has_ident',) and isinstance(base, Cmd):
                return True
            if f.attr == 'get_ident' and isinstance(base, Cmd) and \
                    base.ident is not None:
                return base.ident
            for a in e.args:
                self.expr(a, env, pc)
            return Opaque(f.attr)
        if isinstance(f, ast.Name):
            name = f.id
            if name == 'Node':
                args = [self.expr(a, env, pc) for a in e.args]
                if args and isinstance(args[0], str) and \
                        args[0].startswith('declare-') and len(args) > 1:
                    self.records.append((pc, as_str(args[1])))
                    return Opaque('declaration')
                if len(args) == 1 and not isinstance(args[0], (Opaque, list)):
                    return Leaf(as_str(args[0]))
                return Opaque('node')
            if name == 'str' and len(e.args) == 1:
                return as_str(self.expr(e.args[0], env, pc))
            if name in ('len', 'sorted', 'set', 'list', 'int', 'range',
                        'filter', 'map', 'any', 'all', 'min', 'max'):
                for a in e.args:
                    self.expr(a, env, pc)
                return Opaque(name)
            if name == 'Simplification':
                for a in e.args:
                    v = self.expr(a, env, pc)
                    if isinstance(v, dict):
                        for r in v['__dict__']:
                            if isinstance(r, Leaf):
                                self.replacements.append((pc, r.s))
                return Opaque(name)
            helper = getattr(self.helpers, name, None)
            args = [self.expr(a, env, pc) for a in e.args]
            if helper is not None and inspect.isfunction(helper) \
                    and self.depth < 3:
                r = self.inline(helper, args, pc)
                if r is not None:
                    return r
            return Opaque(name)
        return Opaque('call')

    def inline(self, fn, args, pc):
        """Helper whose body is ``return <expr>`` (after a docstring)."""
        try:
            src = textwrap.dedent(inspect.getsource(fn))
        except (OSError, TypeError):
            return None
        fdef = ast.parse(src).body[0]
        body = [st for st in fdef.body
                if not (isinstance(st, ast.Expr)
                        and isinstance(st.value, ast.Constant))
                and not isinstance(st, ast.Assert)]
        if len(body) != 1 or not isinstance(body[0], ast.Return):
            return None
        params = [a.arg for a in fdef.args.args]
        if len(params) != len(args):
            return None
        self.depth += 1
        try:
            return self.expr(body[0].value, dict(zip(params, args)), pc)
        finally:
            self.depth -= 1

    # -------------------------------------------------------- statements
    def block(self, stmts, env, pc):
        """Executes the statements on every path; returns the list of
        (env, pc) that fall through."""
        states = [(env, pc)]
        for st in stmts:
            nxt = []
            for (en, p) in states:
                nxt.extend(self.stmt(st, en, p))
            states = nxt
            if not states:
                break
        return states

    def stmt(self, st, env, pc):  # noqa: C901
        if isinstance(st, ast.Expr):
            self.expr(st.value, env, pc)
            return [(env, pc)]
        if isinstance(st, ast.Assign):
            v = self.expr(st.value, env, pc)
            env = dict(env)
            for t in st.targets:
                if isinstance(t, ast.Name):
                    env[t.id] = v
                elif isinstance(t, (ast.Tuple, ast.List)):
                    for x in t.elts:
                        if isinstance(x, ast.Name):
                            env[x.id] = Opaque(x.id)
            return [(env, pc)]
        if isinstance(st, ast.AugAssign):
            env = dict(env)
            if isinstance(st.target, ast.Name):
                env[st.target.id] = Opaque(st.target.id)
            return [(env, pc)]
        if isinstance(st, ast.Return):
            if st.value is not None:
                self.expr(st.value, env, pc)
            return []
        if isinstance(st, ast.If):
            c = self.truth(self.expr(st.test, env, pc))
            out = self.block(st.body, env, z3.And(pc, c))
            out += self.block(st.orelse, env, z3.And(pc, z3.Not(c)))
            return out
        if isinstance(st, ast.For):
            env2 = dict(env)
            for x in ast.walk(st.target):
                if isinstance(x, ast.Name):
                    env2[x.id] = Opaque(x.id)
            self.expr(st.iter, env, pc)
            # one symbolic iteration (the loop variable is unconstrained);
            # paths leaving it continue after the loop, as does "no
            # iteration"
            out = self.block(st.body, env2, pc)
            return out + [(env, pc)]
        if isinstance(st, (ast.Pass, ast.Continue, ast.Break)):
            return [(env, pc)]
        raise Unsupported(type(st).__name__)


def name_constructions(method, helpers_module, env):
    """[(path condition, name term)] for every declaration the method
    builds; ``env`` binds its parameters."""
    src = textwrap.dedent(inspect.getsource(method))
    fdef = ast.parse(src).body[0]
    ev = Evaluator(helpers_module)
    ev.block(fdef.body, dict(env), z3.BoolVal(True))
    return ev.records


def leaf_replacements(method, helpers_module, env, precondition=None):
    """[(path condition, text term)] for every leaf a Simplification of the
    method replaces something by; ``precondition`` = the filter method,
    whose return value is conjoined to every path."""
    ev = Evaluator(helpers_module)
    pc = z3.BoolVal(True)
    if precondition is not None:
        src = textwrap.dedent(inspect.getsource(precondition))
        fdef = ast.parse(src).body[0]
        body = [st for st in fdef.body
                if not (isinstance(st, ast.Expr)
                        and isinstance(st.value, ast.Constant))]
        if len(body) != 1 or not isinstance(body[0], ast.Return):
            raise Unsupported('filter is not a single return')
        pc = ev.truth(ev.expr(body[0].value, dict(env), pc))
    src = textwrap.dedent(inspect.getsource(method))
    fdef = ast.parse(src).body[0]
    ev.block(fdef.body, dict(env), pc)
    return ev.replacements


# ------------------------------------------------------ token languages

def model_string(model, term):
    """Python string of a z3 string term under a model (z3 prints
    non-printable characters as \\u{hex})."""
    import re
    txt = model.eval(term, True).as_string()
    return re.sub(r'\\u\{([0-9a-fA-F]+)\}',
                  lambda m: chr(int(m.group(1), 16)), txt)


def _chars(s):
    return z3.Union(*[z3.Re(c) for c in s]) if len(s) > 1 else z3.Re(s)


def languages():
    """z3 regular expressions of the SMT-LIB 2.6 lexemes (3.1); characters
    range over the Basic Multilingual Plane.  (Written with ranges only: z3
    does not decide the inclusion queries when complement/intersection
    occur.)"""
    top = chr(0xFFFF)
    letter = z3.Union(z3.Range('a', 'z'), z3.Range('A', 'Z'))
    digit = z3.Range('0', '9')
    special = _chars('~!@$%^&*_-+=<>.?/')
    simple = z3.Concat(z3.Union(letter, special),
                       z3.Star(z3.Union(letter, digit, special)))
    # any character but '|' (7c) and backslash (5c)
    notbar = z3.Union(z3.Range(chr(0), chr(0x5b)),
                      z3.Range(chr(0x5d), chr(0x7b)),
                      z3.Range(chr(0x7d), top))
    quoted = z3.Concat(z3.Re('|'), z3.Star(notbar), z3.Re('|'))
    symbol = z3.Union(simple, quoted)
    notq = z3.Union(z3.Range(chr(0), chr(0x21)), z3.Range(chr(0x23), top))
    strbody = z3.Star(z3.Union(notq, z3.Re('""')))
    strlit = z3.Concat(z3.Re('"'), strbody, z3.Re('"'))
    # one token without delimiters for the reader: any run of characters
    # other than white space, parentheses, '"', '|' and ';'
    def but(codes):
        out = []
        cur = 0
        for c in sorted(codes):
            if c > cur:
                out.append(z3.Range(chr(cur), chr(c - 1)))
            cur = c + 1
        out.append(z3.Range(chr(cur), top))
        return z3.Union(*out)
    bare = z3.Plus(but([9, 10, 13, 32, 34, 40, 41, 59, 124]))
    # what the writers and readers treat as one leaf: a bare token, or a
    # leaf starting with ';' (written and read as a comment line)
    comment = z3.Concat(z3.Re(';'), z3.Star(but([10, 13])))
    return {'symbol': symbol, 'digits': z3.Plus(digit), 'simple': simple,
            'bare': bare, 'leaf': z3.Union(bare, comment),
            'quoted': quoted, 'strlit': strlit, 'quoted_body': z3.Star(notbar),
            'strlit_body': strbody}


def cases(name, lang):
    """The language ``lang`` of the token ``name`` as a list of (label,
    constraint) whose disjunction is membership; delimited lexemes are
    decomposed structurally (delimiter ++ body ++ delimiter), which is what
    makes the inclusion queries decidable for z3."""
    L = languages()
    body = z3.String('body_of_' + str(name))
    out = [('simple symbol', z3.InRe(name, L['simple'])),
           ('quoted symbol', z3.And(
               name == z3.Concat(z3.StringVal('|'), body, z3.StringVal('|')),
               z3.InRe(body, L['quoted_body'])))]
    if lang == 'symstr':
        out.append(('string literal', z3.And(
            name == z3.Concat(z3.StringVal('"'), body, z3.StringVal('"')),
            z3.InRe(body, L['strlit_body']))))
    elif lang != 'symbol':
        raise Unsupported(lang)
    return out
