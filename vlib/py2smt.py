"""Translation of a small subset of Python (the shape of
``ddsmt.checker.matches_golden``) from the *source of the function in /repo*
into a z3 formula: straight-line ``if``/``return`` code over records of
optional strings / ints, ``not``, ``and``/``or``, ``==``/``!=``/``in``/
``not in``/``is None``/``is not None`` and truthiness of optional strings.

``translate(fn, env)`` symbolically evaluates the function body once (both
branches of every ``if`` are merged with z3 ``If``) and returns the z3 Bool of
the return value.  Anything outside the subset raises ``Unsupported`` - the
caller then reports the partition as inconclusive instead of guessing.
"""
import ast
import inspect
import textwrap

import z3


class Unsupported(Exception):
    pass


class OptStr:
    """Optional[str]: (is_none, value)."""

    def __init__(self, name):
        self.none = z3.Bool(name + '_is_none')
        self.s = z3.String(name)

    def truthy(self):
        return z3.And(z3.Not(self.none), z3.Length(self.s) > 0)


class OptInt:
    def __init__(self, name):
        self.none = z3.Bool(name + '_is_none')
        self.i = z3.Int(name)


class Record:
    def __init__(self, **fields):
        self.fields = fields


class OptList:
    """Optional[list]: only its truthiness is used."""

    def __init__(self, name):
        self.nonempty = z3.Bool(name + '_given')


def _truth(v):
    if isinstance(v, OptStr):
        return v.truthy()
    if isinstance(v, OptList):
        return v.nonempty
    if isinstance(v, z3.BoolRef):
        return v
    if isinstance(v, bool):
        return z3.BoolVal(v)
    raise Unsupported(f'truthiness of {type(v).__name__}')


def _eq(a, b):
    if isinstance(a, OptStr) and isinstance(b, OptStr):
        return z3.Or(z3.And(a.none, b.none),
                     z3.And(z3.Not(a.none), z3.Not(b.none), a.s == b.s))
    if isinstance(a, OptInt) and isinstance(b, OptInt):
        return z3.Or(z3.And(a.none, b.none),
                     z3.And(z3.Not(a.none), z3.Not(b.none), a.i == b.i))
    if a is None and isinstance(b, (OptStr, OptInt)):
        return b.none
    if b is None and isinstance(a, (OptStr, OptInt)):
        return a.none
    raise Unsupported(f'comparison of {type(a).__name__} and '
                      f'{type(b).__name__}')


class _Eval:
    def __init__(self, env):
        self.env = env
        self.errors = []     # conditions under which the code would raise

    def expr(self, e, guard):
        if isinstance(e, ast.Name):
            if e.id not in self.env:
                raise Unsupported(f'name {e.id}')
            return self.env[e.id]
        if isinstance(e, ast.Constant):
            if e.value is None or isinstance(e.value, bool):
                return e.value
            raise Unsupported(f'constant {e.value!r}')
        if isinstance(e, ast.Call):
            f = e.func
            # options.args() -> the record of parsed options
            if isinstance(f, ast.Attribute) and f.attr == 'args' and \
                    isinstance(f.value, ast.Name) and f.value.id == 'options' \
                    and '__args__' in self.env and not e.args:
                return self.env['__args__']
            if isinstance(f, ast.Name) and f.id in self.env.get('__calls__',
                                                                {}):
                args = [self.expr(a, guard) for a in e.args]
                return self.env['__calls__'][f.id](self, args, guard)
            raise Unsupported('call of ' + ast.dump(f)[:60])
        if isinstance(e, ast.Attribute):
            base = self.expr(e.value, guard)
            if isinstance(base, Record) and e.attr in base.fields:
                return base.fields[e.attr]
            raise Unsupported(f'attribute {e.attr}')
        if isinstance(e, ast.UnaryOp) and isinstance(e.op, ast.Not):
            return z3.Not(_truth(self.expr(e.operand, guard)))
        if isinstance(e, ast.BoolOp):
            # short-circuit evaluation: later operands are only evaluated
            # (and may only raise) when the earlier ones did not decide
            vals = []
            g = guard
            for v in e.values:
                t = _truth(self.expr(v, g))
                vals.append(t)
                g = z3.And(g, t) if isinstance(e.op, ast.And) \
                    else z3.And(g, z3.Not(t))
            return z3.And(*vals) if isinstance(e.op, ast.And) \
                else z3.Or(*vals)
        if isinstance(e, ast.Compare) and len(e.ops) == 1:
            a = self.expr(e.left, guard)
            b = self.expr(e.comparators[0], guard)
            op = e.ops[0]
            if isinstance(op, ast.Eq):
                return _eq(a, b)
            if isinstance(op, ast.NotEq):
                return z3.Not(_eq(a, b))
            if isinstance(op, ast.Is):
                return _eq(a, b)
            if isinstance(op, ast.IsNot):
                return z3.Not(_eq(a, b))
            if isinstance(op, (ast.In, ast.NotIn)):
                if not (isinstance(a, OptStr) and isinstance(b, OptStr)):
                    raise Unsupported('membership on non-strings')
                # 'x in None' / 'None in s' raise TypeError
                self.errors.append(z3.And(guard, z3.Or(a.none, b.none)))
                r = z3.Contains(b.s, a.s)
                return r if isinstance(op, ast.In) else z3.Not(r)
        raise Unsupported(ast.dump(e)[:80])

    def block(self, stmts, guard):
        """Returns the z3 value returned by the block under ``guard`` or
        None if control falls through."""
        for k, st in enumerate(stmts):
            if isinstance(st, ast.Expr) and isinstance(st.value, ast.Constant):
                continue                      # docstring
            if isinstance(st, ast.Assign) and len(st.targets) == 1 and \
                    isinstance(st.targets[0], ast.Name):
                self.env = dict(self.env)
                self.env[st.targets[0].id] = self.expr(st.value, guard)
                continue
            if isinstance(st, ast.Return):
                return _truth(self.expr(st.value, guard))
            if isinstance(st, ast.If):
                c = _truth(self.expr(st.test, guard))
                rest = stmts[k + 1:]
                saved_env = self.env
                t = self.block(list(st.body) + rest, z3.And(guard, c))
                self.env = saved_env
                f = self.block(list(st.orelse) + rest,
                               z3.And(guard, z3.Not(c)))
                self.env = saved_env
                if t is None or f is None:
                    raise Unsupported('a path without return')
                return z3.If(c, t, f)
            raise Unsupported(type(st).__name__)
        return None


def inliner(fn):
    """A call hook that evaluates ``fn`` (same subset) on the argument
    values; raise conditions of the callee are added to the caller's."""
    src = textwrap.dedent(inspect.getsource(fn))
    fdef = ast.parse(src).body[0]
    params = [a.arg for a in fdef.args.args]

    def hook(ev, args, guard):
        if len(args) != len(params):
            raise Unsupported('arity of ' + fdef.name)
        sub = _Eval(dict(zip(params, args)))
        res = sub.block(fdef.body, guard)
        if res is None:
            raise Unsupported(fdef.name + ' may fall off its end')
        ev.errors.extend(sub.errors)
        return res
    return hook


def translate(fn, env):
    """(result formula, list of raise conditions)"""
    src = textwrap.dedent(inspect.getsource(fn))
    tree = ast.parse(src)
    fdef = tree.body[0]
    if not isinstance(fdef, ast.FunctionDef):
        raise Unsupported('not a function')
    params = [a.arg for a in fdef.args.args]
    missing = [p for p in params if p not in env]
    if missing:
        raise Unsupported(f'parameters without a model: {missing}')
    ev = _Eval(env)
    translate.last_eval = ev
    res = ev.block(fdef.body, z3.BoolVal(True))
    if res is None:
        raise Unsupported('function may fall off its end')
    return res, ev.errors
