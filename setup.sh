#!/bin/sh
# Build the overlay venv used by every check: /venv (ddSMT's own environment)
# + crosshair-tool + z3-solver + cvc5 from the offline wheelhouse. Idempotent.
set -e
cd "$(dirname "$0")"
PY=.venv/bin/python
if [ ! -x "$PY" ] || ! "$PY" -c "import crosshair, z3" >/dev/null 2>&1; then
  rm -rf .venv
  /venv/bin/python -m venv .venv
  echo "import site; site.addsitedir('/venv/lib/python3.12/site-packages')" \
    > .venv/lib/python3.12/site-packages/_overlay.pth
  PIP_NO_INDEX=1 .venv/bin/pip install -q --no-index \
    --find-links /opt/veriftools/wheels crosshair-tool z3-solver
fi
if ! "$PY" -c "import cvc5" >/dev/null 2>&1; then
  PIP_NO_INDEX=1 .venv/bin/pip install -q --no-index \
    --find-links /opt/veriftools/wheels cvc5 || echo "cvc5 wheel not installable (optional)"
fi
"$PY" -c "import crosshair, z3; print('verif venv ok: crosshair', crosshair.__version__ if hasattr(crosshair,'__version__') else '?', 'z3', z3.get_version_string())"
